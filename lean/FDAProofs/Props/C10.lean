/-
C10 — centring, normalising, standardising, rescaling achieve what they promise.
Only property theorems and non-vacuity examples live here; helper lemmas are in
`FDAProofs/Lemmas/Transform.lean`.  The definitions are those of
`FDAModel/Transform.lean` (and `Core/Quadrature.lean`, `Stats.lean`), which
`Drivers/C10.lean` executes.
-/
import FDAProofs.Lemmas.Transform
import FDAModel.CovPath
import FDAModel.Generated.StatsFormulas

namespace C10
open FDA Finset

/-! ### centring -/

/-- After centring dense data (no mean smoothing) the pointwise sample mean is zero. -/
theorem center_mean_zero (N : ℕ) (X : ℕ → ℕ → ℚ) (hN : 0 < N) (j : ℕ) :
    colMean N (center N X) j = 0 :=
  colMean_center N X hN j

/-- Centring again changes nothing. -/
theorem center_idempotent (N : ℕ) (X : ℕ → ℕ → ℚ) (hN : 0 < N) (i j : ℕ) :
    center N (center N X) i j = center N X i j := by
  show center N X i j - colMean N (center N X) j = center N X i j
  rw [colMean_center N X hN j, sub_zero]

/-- Any offset curve `c` is removed, a factor passes through. -/
theorem center_affine (N : ℕ) (X : ℕ → ℕ → ℚ) (a : ℚ) (c : ℕ → ℚ) (hN : 0 < N) (i j : ℕ) :
    center N (fun i j => a * X i j + c j) i j = a * center N X i j := by
  unfold center colMean
  have : (N : ℚ) ≠ 0 := by exact_mod_cast hN.ne'
  rw [Finset.sum_add_distrib, ← Finset.mul_sum, Finset.sum_const, card_range, nsmul_eq_mul]
  field_simp
  ring

/-- Basis-expansion data: centring the coefficients is centring the curves
(`to_grid ∘ center = center ∘ to_grid`, any basis, any number of functions) … -/
theorem basis_center_commutes (N K : ℕ) (C B : ℕ → ℕ → ℚ) (i j : ℕ) :
    toGrid K (center N C) B i j = center N (toGrid K C B) i j := by
  simp only [toGrid, center, colMean]
  have h : (∑ a ∈ range N, ∑ k ∈ range K, C a k * B k j) / (N : ℚ) =
      ∑ k ∈ range K, (∑ a ∈ range N, C a k) / N * B k j := by
    rw [Finset.sum_comm, Finset.sum_div]
    apply Finset.sum_congr rfl; intro k _
    rw [← Finset.sum_mul]; ring
  rw [h, ← Finset.sum_sub_distrib]
  apply Finset.sum_congr rfl; intro k _; ring

/-- … hence after centring basis data the pointwise mean of the curves is zero and
centring again changes nothing. -/
theorem basis_center_mean_zero (N K : ℕ) (C B : ℕ → ℕ → ℚ) (hN : 0 < N) (i j : ℕ) :
    colMean N (toGrid K (center N C) B) j = 0 ∧
    toGrid K (center N (center N C)) B i j = toGrid K (center N C) B i j := by
  constructor
  · have : toGrid K (center N C) B = center N (toGrid K C B) := by
      funext i j; exact basis_center_commutes N K C B i j
    rw [this]; exact colMean_center N _ hN j
  · unfold toGrid
    apply Finset.sum_congr rfl; intro k _
    rw [center_idempotent N C hN]

/-! ### centring irregular data: the masked selection -/

/-- With the union grid sorted and duplicate-free and the curve's points a sorted
sub-list of it, the `np.isin` mask selects the mean at exactly the curve's own points,
in the curve's own order: the selected pairs are pairs of the (grid, mean) table and
their grid points are the curve's points. -/
theorem center_irregular (UV : List (ℚ × ℚ)) (pts : List ℚ)
    (hU : (UV.map Prod.fst).Pairwise (· < ·)) (hsub : pts.Sublist (UV.map Prod.fst)) :
    (selectMean UV pts).map Prod.fst = pts ∧ (selectMean UV pts).Sublist UV := by
  refine ⟨?_, List.filter_sublist⟩
  unfold selectMean
  induction UV generalizing pts with
  | nil =>
    simp only [List.map_nil, List.sublist_nil] at hsub
    subst hsub; rfl
  | cons p l ih =>
    simp only [List.map_cons, List.pairwise_cons] at hU
    obtain ⟨hlt, hl⟩ := hU
    simp only [List.map_cons] at hsub
    cases hsub with
    | cons _ h =>
      -- the grid point `p.1` is not one of the curve's points
      have hnot : pts.contains p.1 = false := by
        rw [Bool.eq_false_iff]; intro hc
        have hm : p.1 ∈ pts := by simpa using hc
        exact lt_irrefl _ (hlt _ (h.subset hm))
      rw [List.filter_cons, hnot]
      simpa using ih pts hl h
    | cons_cons _ h =>
      rename_i pts'
      have hyes : (p.1 :: pts').contains p.1 = true := by simp
      rw [List.filter_cons, hyes]
      simp only [if_true, List.map_cons, List.cons.injEq, true_and]
      have hcongr : l.filter (fun q => (p.1 :: pts').contains q.1) = l.filter (fun q => pts'.contains q.1) := by
        apply List.filter_congr
        intro q hq
        have hne : q.1 ≠ p.1 := ne_of_gt (hlt q.1 (List.mem_map_of_mem hq))
        simp [hne]
      rw [hcongr]
      exact ih pts' hl h

/-- Hence centring subtracts, sample by sample, the mean value attached to the sample's
own point: under the same hypotheses and with as many samples as points the result is
`vals[k] − μ(pts[k])` (missing samples — `NaN` — stay missing), never a broadcasting
accident or an error. -/
theorem center_irregular_values (UV : List (ℚ × ℚ)) (pts : List ℚ) (vals : List (Option ℚ))
    (hU : (UV.map Prod.fst).Pairwise (· < ·)) (hsub : pts.Sublist (UV.map Prod.fst))
    (hlen : vals.length = pts.length) :
    ∃ sel : List (ℚ × ℚ), sel.Sublist UV ∧ sel.map Prod.fst = pts ∧
      centerIrregular UV pts vals = .ok (List.zipWith (fun v q => v.map (· - q.2)) vals sel) := by
  obtain ⟨h1, h2⟩ := center_irregular UV pts hU hsub
  refine ⟨selectMean UV pts, h2, h1, ?_⟩
  unfold centerIrregular
  have hl : ((selectMean UV pts).map Prod.snd).length = vals.length := by
    have := congrArg List.length h1
    rw [List.length_map] at this
    rw [List.length_map, hlen, this]
  simp only [hl, if_true]
  congr 1
  rw [List.zipWith_map_right]

/-! ### normalising -/

/-- After normalising, the observation has unit norm (`r` = the norm: `r² = ‖x‖²`, `r ≠ 0`). -/
theorem normalize_unit (n : ℕ) (t x : ℕ → ℚ) (r : ℚ) (hr : r ≠ 0) (hr2 : r ^ 2 = normSq n t x) :
    normSq n t (scaleBy r x) = 1 := by
  have : normSq n t (scaleBy r x) = (1 / r ^ 2) * normSq n t x := by
    unfold normSq inner scaleBy
    rw [← trapz_smul]
    apply trapz_congr; intro j _; field_simp
  rw [this, ← hr2]
  field_simp

/-- What the driver prints for a normalised value is its signed square; a vanishing norm
is reported, not defaulted. -/
theorem normalize_signed_sq (nsq : ℚ) (x : ℕ → ℚ) (r : ℚ) (j : ℕ) :
    (0 < r → r ^ 2 = nsq → normalizedSq nsq x j = some (signedSq (scaleBy r x j))) ∧
    (nsq = 0 → normalizedSq nsq x j = none) := by
  constructor
  · intro hr hr2
    have : nsq ≠ 0 := by rw [← hr2]; positivity
    unfold normalizedSq scaleBy
    rw [if_neg this, signedSq_div _ _ hr, hr2]
  · intro h; unfold normalizedSq; rw [if_pos h]

/-- Multivariate data are divided by the multivariate norm as coded (the sum of the
component norms): afterwards every component `p` has norm `r_p / Σ r`, and the
multivariate norm of the observation is one. -/
theorem normalize_multivariate_unit (P : ℕ) (n : ℕ → ℕ) (t x : ℕ → ℕ → ℚ) (r : ℕ → ℚ)
    (hr : ∀ p < P, 0 ≤ r p) (hr2 : ∀ p < P, r p ^ 2 = normSq (n p) (t p) (x p))
    (hpos : 0 < multiNorm P r) :
    (∀ p < P, 0 ≤ r p / multiNorm P r ∧
      (r p / multiNorm P r) ^ 2 = normSq (n p) (t p) (scaleBy (multiNorm P r) (x p))) ∧
    multiNorm P (fun p => r p / multiNorm P r) = 1 := by
  constructor
  · intro p hp
    refine ⟨div_nonneg (hr p hp) hpos.le, ?_⟩
    have : normSq (n p) (t p) (scaleBy (multiNorm P r) (x p)) =
        (1 / multiNorm P r ^ 2) * normSq (n p) (t p) (x p) := by
      unfold normSq inner scaleBy
      rw [← trapz_smul]
      apply trapz_congr; intro j _
      have := hpos.ne'
      field_simp
    rw [this, ← hr2 p hp]
    have := hpos.ne'
    field_simp
  · unfold multiNorm at hpos ⊢
    rw [← Finset.sum_div]
    exact div_self hpos.ne'

/-! ### standardising -/

/-- After standardising dense data the pointwise variance is one wherever it was
positive, and the pointwise mean is zero (`sd` = the pointwise standard deviation:
`sd_j² = Var_j`). -/
theorem standardize_unit_var (N : ℕ) (X : ℕ → ℕ → ℚ) (sd : ℕ → ℚ) (hN : 0 < N)
    (hsd : ∀ j, sd j ^ 2 = popVar N X j) (j : ℕ) (hpos : 0 < popVar N X j) :
    popVar N (standardize sd (center N X)) j = 1 ∧ colMean N (standardize sd (center N X)) j = 0 := by
  have hne : sd j ≠ 0 := by
    intro h; rw [← hsd j, h] at hpos; simp at hpos
  have hcol : ∀ i, standardize sd (center N X) i j = (fun i j => center N X i j / sd j) i j := by
    intro i; unfold standardize; rw [if_neg hne]
  constructor
  · have : popVar N (standardize sd (center N X)) j = popVar N (fun i j => center N X i j / sd j) j := by
      unfold popVar colMean; simp only [hcol]
    rw [this, popVar_div, popVar_center N X hN, hsd j]
    exact div_self hpos.ne'
  · have : colMean N (standardize sd (center N X)) j = colMean N (fun i j => center N X i j / sd j) j := by
      unfold colMean; simp only [hcol]
    rw [this, colMean_div, colMean_center N X hN, zero_div]

/-- The same without centring (`center=False`): the variance of the output is still one. -/
theorem standardize_nocenter_unit_var (N : ℕ) (X : ℕ → ℕ → ℚ) (sd : ℕ → ℚ)
    (hsd : ∀ j, sd j ^ 2 = popVar N X j) (j : ℕ) (hpos : 0 < popVar N X j) :
    popVar N (standardize sd X) j = 1 := by
  have hne : sd j ≠ 0 := by
    intro h; rw [← hsd j, h] at hpos; simp at hpos
  have hcol : ∀ i, standardize sd X i j = (fun i j => X i j / sd j) i j := by
    intro i; unfold standardize; rw [if_neg hne]
  have : popVar N (standardize sd X) j = popVar N (fun i j => X i j / sd j) j := by
    unfold popVar colMean; simp only [hcol]
  rw [this, popVar_div, hsd j]
  exact div_self hpos.ne'

/-- Grid points where all curves coincide (zero variance) get the defined value `0`
for every observation, whatever the data there, and the output's variance there is `0`. -/
theorem standardize_zero_var (N : ℕ) (X D : ℕ → ℕ → ℚ) (sd : ℕ → ℚ)
    (hsd : ∀ j, sd j ^ 2 = popVar N X j) (j : ℕ) (hzero : popVar N X j = 0) :
    (∀ i, standardize sd D i j = 0) ∧ popVar N (standardize sd D) j = 0 := by
  have h0 : sd j = 0 := by
    have := hsd j; rw [hzero] at this
    exact pow_eq_zero_iff (by norm_num) |>.mp this
  have hcol : ∀ i, standardize sd D i j = 0 := by
    intro i; unfold standardize; rw [if_pos h0]
  refine ⟨hcol, ?_⟩
  unfold popVar colMean
  simp [hcol]

/-- Every output is a number: the guarded division never divides by zero, for any data
and any `sd` (no hypothesis). -/
theorem standardize_total (sd : ℕ → ℚ) (D : ℕ → ℕ → ℚ) (i j : ℕ) :
    standardizeE sd D i j = some (standardize sd D i j) := by
  unfold standardizeE standardize divE
  by_cases h : sd j = 0
  · rw [if_pos h, if_pos h]
  · rw [if_neg h, if_neg h, if_neg h]

/-- Why the repair (`out=`) was needed: without it the value at a zero-variance point is
whatever the fresh buffer held — any number at all. -/
theorem standardize_uninit_arbitrary (sd : ℕ → ℚ) (D : ℕ → ℕ → ℚ) (i j : ℕ) (h0 : sd j = 0) (v : ℚ) :
    ∃ g, standardizeUninit g sd D i j = v ∧ ∀ g', standardizeUninit g' sd D i j = g' i j := by
  refine ⟨fun _ _ => v, ?_, fun g' => ?_⟩ <;> (unfold standardizeUninit; rw [if_pos h0])

/-- What the driver prints for a standardised value is its signed square, computed from
the variance alone. -/
theorem standardize_signed_sq (sd var : ℕ → ℚ) (D : ℕ → ℕ → ℚ) (i j : ℕ)
    (hsd0 : 0 ≤ sd j) (hsd : sd j ^ 2 = var j) :
    signedSq (standardize sd D i j) = standardizedSq var D i j := by
  unfold standardize standardizedSq
  by_cases h : sd j = 0
  · have : var j = 0 := by rw [← hsd, h]; ring
    rw [if_pos h, if_pos this]; simp [signedSq]
  · have hv : var j ≠ 0 := by rw [← hsd]; exact pow_ne_zero 2 h
    rw [if_neg h, if_neg hv, signedSq_div _ _ (lt_of_le_of_ne hsd0 (Ne.symm h)), hsd]

/-- Basis data: the diagonal of the covariance of the expansion (coefficient
covariance with `ddof = 0`, pushed through the basis) is the pointwise population
variance of the curves … -/
theorem basis_cov_diag_eq_popVar (N K : ℕ) (C B : ℕ → ℕ → ℚ) (j : ℕ) :
    ∑ k ∈ range K, ∑ l ∈ range K, cov N 0 C k l * (B k j * B l j) = popVar N (toGrid K C B) j := by
  have hq : ∑ k ∈ range K, ∑ l ∈ range K, B k j * B l j * cov N 0 C k l =
      (∑ i ∈ range N, (∑ k ∈ range K, B k j * center N C i k) ^ 2) / ((N : ℚ) - (0 : ℕ)) := by
    have := FDA.cov_quadratic_form N 0 K C (fun k => B k j)
    exact this
  have e1 : ∑ k ∈ range K, ∑ l ∈ range K, cov N 0 C k l * (B k j * B l j) =
      ∑ k ∈ range K, ∑ l ∈ range K, B k j * B l j * cov N 0 C k l := by
    apply Finset.sum_congr rfl; intro k _
    apply Finset.sum_congr rfl; intro l _; ring
  rw [e1, hq]
  unfold popVar
  simp only [Nat.cast_zero, sub_zero]
  congr 1
  apply Finset.sum_congr rfl; intro i _
  have : toGrid K C B i j - colMean N (toGrid K C B) j = center N (toGrid K C B) i j := rfl
  rw [this, ← basis_center_commutes]
  unfold toGrid
  congr 1
  apply Finset.sum_congr rfl; intro k _; ring

/-- … and dividing the basis functions by `sd` (zero where `sd = 0`) standardises the
curves: `to_grid (C, B / sd) = standardize (to_grid (C, B))`. -/
theorem basis_standardize_grid (K : ℕ) (C B : ℕ → ℕ → ℚ) (sd : ℕ → ℚ) (i j : ℕ) :
    toGrid K C (standardize sd B) i j = standardize sd (toGrid K C B) i j := by
  unfold toGrid standardize
  by_cases h : sd j = 0
  · simp [h]
  · simp only [if_neg h]
    rw [Finset.sum_div]
    apply Finset.sum_congr rfl; intro k _; ring

/-! ### rescaling -/

/-- The returned weight is the integrated pointwise variance of the input; equivalently
the mean squared norm of the centred curves (the mean of the Gram diagonal of C08). -/
theorem rescale_weight (n : ℕ) (t : ℕ → ℚ) (N : ℕ) (X : ℕ → ℕ → ℚ) :
    rescaleWeight n t N X = trapz n t (popVar N X) ∧
    rescaleWeight n t N X = (∑ i ∈ range N, normSq n t (center N X i)) / N := by
  refine ⟨rfl, ?_⟩
  unfold rescaleWeight normSq inner
  have h1 : popVar N X = fun j => (1 / (N : ℚ)) * ∑ i ∈ range N, center N X i j * center N X i j := by
    funext j; unfold popVar center
    rw [div_eq_mul_one_div, mul_comm]
    congr 1
    apply Finset.sum_congr rfl; intro i _; ring
  rw [h1, trapz_smul, trapz_sum']
  ring

/-- On a sorted grid the weight is non-negative. -/
theorem rescale_weight_nonneg (n : ℕ) (t : ℕ → ℚ) (N : ℕ) (X : ℕ → ℕ → ℚ) (hn : 2 ≤ n)
    (hmono : ∀ i j, i ≤ j → t i ≤ t j) : 0 ≤ rescaleWeight n t N X := by
  unfold rescaleWeight
  rw [FDA.trapz_eq_weights n t _ hn]
  exact Finset.sum_nonneg fun j hj =>
    mul_nonneg (FDA.trapzW_nonneg hmono j (mem_range.mp hj)) (popVar_nonneg N X j)

/-- A factor enters the weight squared, offsets (any curve `c`) drop out. -/
theorem rescale_weight_affine (n : ℕ) (t : ℕ → ℚ) (N : ℕ) (X : ℕ → ℕ → ℚ) (a : ℚ) (c : ℕ → ℚ)
    (hN : 0 < N) :
    rescaleWeight n t N (fun i j => a * X i j + c j) = a ^ 2 * rescaleWeight n t N X := by
  unfold rescaleWeight
  rw [← trapz_smul]
  apply trapz_congr; intro j _
  have h1 := (FDA.cov_diag N (fun i j => a * X i j + c j) j).1
  have h2 := (FDA.cov_diag N X j).1
  rw [h1, h2, FDA.cov_affine N 0 X a c hN]

/-- After rescaling, re-estimating the weight gives one (`r = √weight`). -/
theorem rescale_reestimate_one (n : ℕ) (t : ℕ → ℚ) (N : ℕ) (X : ℕ → ℕ → ℚ) (r : ℚ) (hr : r ≠ 0)
    (hr2 : r ^ 2 = rescaleWeight n t N X) :
    rescaleWeight n t N (fun i => scaleBy r (X i)) = 1 := by
  have : rescaleWeight n t N (fun i => scaleBy r (X i)) = (1 / r ^ 2) * rescaleWeight n t N X := by
    unfold rescaleWeight
    rw [← trapz_smul]
    apply trapz_congr; intro j _
    have := popVar_div N X (fun _ => r) j
    unfold scaleBy
    rw [this]; ring
  rw [this, ← hr2]
  field_simp

/-- A user-supplied weight `w` divides the values by `√w` (`r > 0`, `r² = w`): signed
squares are divided by `w`, and the weight re-estimated afterwards is `weight / w`. -/
theorem rescale_user_weight (n : ℕ) (t : ℕ → ℚ) (N : ℕ) (X : ℕ → ℕ → ℚ) (w r : ℚ) (hr : 0 < r)
    (hr2 : r ^ 2 = w) :
    (∀ i j, signedSq (scaleBy r (X i) j) = signedSq (X i j) / w) ∧
    rescaleWeight n t N (fun i => scaleBy r (X i)) = rescaleWeight n t N X / w := by
  constructor
  · intro i j; unfold scaleBy; rw [signedSq_div _ _ hr, hr2]
  · unfold rescaleWeight
    rw [div_eq_mul_one_div, mul_comm, ← trapz_smul]
    apply trapz_congr; intro j _
    have := popVar_div N X (fun _ => r) j
    unfold scaleBy
    rw [this, hr2]; ring

/-- `use_argvals_stand=True` integrates on the grid mapped to `[0, 1]`: the weight is
the plain weight divided by the length of the domain. -/
theorem rescale_weight_stand (n : ℕ) (t : ℕ → ℚ) (N : ℕ) (X : ℕ → ℕ → ℚ) :
    rescaleWeight n (standGrid n t) N X = rescaleWeight n t N X / (t (n - 1) - t 0) := by
  unfold rescaleWeight trapz standGrid
  rw [Finset.sum_div]
  apply Finset.sum_congr rfl; intro j _
  rw [← sub_div]; ring

/-- 2-D data: the same with the product quadrature. -/
theorem rescale2_reestimate_one (n₁ n₂ : ℕ) (t₁ t₂ : ℕ → ℚ) (N : ℕ) (X : ℕ → ℕ → ℚ) (r : ℚ)
    (hr : r ≠ 0) (hr2 : r ^ 2 = rescaleWeight2 n₁ n₂ t₁ t₂ N X) :
    rescaleWeight2 n₁ n₂ t₁ t₂ N (fun i => scaleBy r (X i)) = 1 := by
  have : rescaleWeight2 n₁ n₂ t₁ t₂ N (fun i => scaleBy r (X i)) =
      (1 / r ^ 2) * rescaleWeight2 n₁ n₂ t₁ t₂ N X := by
    unfold rescaleWeight2 integrate2
    rw [← trapz_smul]
    apply trapz_congr; intro b _
    rw [← trapz_smul]
    apply trapz_congr; intro a _
    have := popVar_div N X (fun _ => r) (a * n₂ + b)
    show popVar N (fun i => scaleBy r (X i)) (a * n₂ + b) = 1 / r ^ 2 * popVar N X (a * n₂ + b)
    unfold scaleBy
    rw [this]; ring
  rw [this, ← hr2]
  field_simp

/-- Multivariate data behave component-wise: rescaling every component by the root of
its own weight makes every re-estimated weight one. -/
theorem rescale_multivariate (P : ℕ) (n : ℕ → ℕ) (t : ℕ → ℕ → ℚ) (N : ℕ) (X : ℕ → ℕ → ℕ → ℚ)
    (r : ℕ → ℚ) (hr : ∀ p < P, r p ≠ 0)
    (hr2 : ∀ p < P, r p ^ 2 = rescaleWeight (n p) (t p) N (X p)) :
    ∀ p < P, rescaleWeight (n p) (t p) N (fun i => scaleBy (r p) (X p i)) = 1 :=
  fun p hp => rescale_reestimate_one (n p) (t p) N (X p) (r p) (hr p hp) (hr2 p hp)

/-! ### compositions, irregular data through their interpolant / smoother -/

/-- Standardising is idempotent, exactly: standardising the standardised data again (with the
non-negative root `sd'` of *its* pointwise variance) returns it unchanged, at every grid point — where
the input variance was positive the second pass divides by `1`, where it was zero both passes give `0`.
(No sign convention is involved: the standard deviation is the non-negative root.) -/
theorem standardize_idempotent (N : ℕ) (X : ℕ → ℕ → ℚ) (sd sd' : ℕ → ℚ) (hN : 0 < N)
    (hsd : ∀ j, sd j ^ 2 = popVar N X j)
    (hsd0' : ∀ j, 0 ≤ sd' j) (hsd' : ∀ j, sd' j ^ 2 = popVar N (standardize sd (center N X)) j)
    (i j : ℕ) :
    standardize sd' (center N (standardize sd (center N X))) i j = standardize sd (center N X) i j := by
  set Y := standardize sd (center N X) with hY
  have hmean : colMean N Y j = 0 := by
    by_cases hz : popVar N X j = 0
    · have := (standardize_zero_var N X (center N X) sd hsd j hz).1
      unfold colMean
      rw [Finset.sum_eq_zero (fun i _ => this i), zero_div]
    · have hpos : 0 < popVar N X j := lt_of_le_of_ne (popVar_nonneg N X j) (Ne.symm hz)
      exact (standardize_unit_var N X sd hN hsd j hpos).2
  have hc : center N Y i j = Y i j := by unfold center; rw [hmean, sub_zero]
  unfold standardize
  by_cases hz : popVar N X j = 0
  · -- both sides are 0
    have hY0 := (standardize_zero_var N X (center N X) sd hsd j hz)
    have h0 : sd' j = 0 := by
      have := hsd' j; rw [hY0.2] at this
      exact pow_eq_zero_iff (by norm_num) |>.mp this
    rw [if_pos h0]
    have := hY0.1 i
    unfold standardize at this
    exact this.symm
  · have hpos : 0 < popVar N X j := lt_of_le_of_ne (popVar_nonneg N X j) (Ne.symm hz)
    have h1 : sd' j ^ 2 = 1 := by rw [hsd' j, (standardize_unit_var N X sd hN hsd j hpos).1]
    have h1' : sd' j = 1 := by
      have := hsd0' j
      nlinarith [sq_nonneg (sd' j - 1), sq_nonneg (sd' j + 1)]
    rw [if_neg (by rw [h1']; norm_num), hc, h1', div_one]

/-- Rescaling twice with user weights `w₁, w₂` is rescaling once with `w₁ w₂` (`r_k = √w_k`). -/
theorem rescale_compose (r₁ r₂ : ℚ) (x : ℕ → ℚ) (j : ℕ) :
    scaleBy r₂ (scaleBy r₁ x) j = scaleBy (r₁ * r₂) x j := by
  unfold scaleBy; rw [div_div]

/-- Rescaling twice with estimated weights: the second weight is one, the second pass is the identity. -/
theorem rescale_twice (n : ℕ) (t : ℕ → ℚ) (N : ℕ) (X : ℕ → ℕ → ℚ) (r₁ r₂ : ℚ) (hr₁ : r₁ ≠ 0)
    (h₁ : r₁ ^ 2 = rescaleWeight n t N X) (hr₂ : 0 < r₂)
    (h₂ : r₂ ^ 2 = rescaleWeight n t N (fun i => scaleBy r₁ (X i))) (i j : ℕ) :
    r₂ = 1 ∧ scaleBy r₂ (scaleBy r₁ (X i)) j = scaleBy r₁ (X i) j := by
  rw [rescale_reestimate_one n t N X r₁ hr₁ h₁] at h₂
  have : r₂ = 1 := by nlinarith [sq_nonneg (r₂ - 1), sq_nonneg (r₂ + 1)]
  refine ⟨this, ?_⟩
  unfold scaleBy; rw [this, div_one]

/-- (`np.interp` commutes with a factor on the ordinates; segment search.) -/
theorem interpAux_smul (tp fp : ℕ → ℚ) (a u : ℚ) (fuel k : ℕ) :
    interpAux tp (fun j => a * fp j) u fuel k = a * interpAux tp fp u fuel k := by
  induction fuel generalizing k with
  | zero => rfl
  | succ f ih =>
    unfold interpAux
    split
    · ring
    · exact ih (k + 1)

/-- `np.interp` is homogeneous in the ordinates: the interpolant of `a·y` is `a` times the interpolant
of `y`, at every abscissa, for any nodes. -/
theorem interp_homogeneous (n : ℕ) (tp fp : ℕ → ℚ) (a u : ℚ) :
    interp n tp (fun j => a * fp j) u = a * interp n tp fp u := by
  unfold interp
  split
  · ring
  · split
    · rfl
    · exact interpAux_smul tp fp a u (n - 1) 0

/-- Irregular data are normalised through their interpolant on the union grid `U` (`m` points):
after dividing the samples by `r = ‖interp x‖`, the interpolant has unit norm. -/
theorem irregular_normalize_unit (m : ℕ) (U : ℕ → ℚ) (n : ℕ) (tp fp : ℕ → ℚ) (r : ℚ) (hr : r ≠ 0)
    (hr2 : r ^ 2 = normSq m U (fun j => interp n tp fp (U j))) :
    normSq m U (fun j => interp n tp (scaleBy r fp) (U j)) = 1 := by
  have : (fun j => interp n tp (scaleBy r fp) (U j)) = scaleBy r (fun j => interp n tp fp (U j)) := by
    funext j
    have := interp_homogeneous n tp fp (1 / r) (U j)
    unfold scaleBy
    rw [div_eq_mul_one_div, mul_comm, ← this]
    congr 1; funext k; ring
  rw [this]
  exact normalize_unit m U _ r hr hr2

/-- Irregular data are rescaled through a smoother `S` of the curves (LP, P-splines, interpolation:
a parameter): for ANY smoother that commutes with the division by `r` (every linear smoother does),
re-estimating the weight after rescaling gives one. -/
theorem rescale_reestimate_one_smoothed (S : (ℕ → ℕ → ℚ) → ℕ → ℕ → ℚ) (n : ℕ) (t : ℕ → ℚ) (N : ℕ)
    (X : ℕ → ℕ → ℚ) (r : ℚ) (hr : r ≠ 0)
    (hS : S (fun i => scaleBy r (X i)) = fun i => scaleBy r (S X i))
    (hr2 : r ^ 2 = rescaleWeight n t N (S X)) :
    rescaleWeight n t N (S (fun i => scaleBy r (X i))) = 1 := by
  rw [hS]
  exact rescale_reestimate_one n t N (S X) r hr hr2

/-- Irregular standardisation: every output is a number — either the defined value `0` (standard
deviation not above the threshold, or NaN because the smoothed variance was negative) or the sample
divided by a strictly positive number. -/
theorem standardize_irregular_total (thr : ℚ) (hthr : 0 ≤ thr) (sd : ℕ → Option ℚ) (v : ℕ → ℚ) (k : ℕ) :
    standardizeThr thr sd v k = 0 ∨
    ∃ s, sd k = some s ∧ 0 < s ∧ standardizeThr thr sd v k = v k / s := by
  unfold standardizeThr
  cases h : sd k with
  | none => left; rfl
  | some s =>
    by_cases hs : thr < s
    · right; exact ⟨s, rfl, lt_of_le_of_lt hthr hs, by simp [hs]⟩
    · left; simp [hs]

/-- Multivariate standardisation is component-wise: every component gets unit variance / zero mean where
its variance was positive and `0` where it vanished. -/
theorem standardize_multivariate (P N : ℕ) (X : ℕ → ℕ → ℕ → ℚ) (sd : ℕ → ℕ → ℚ) (hN : 0 < N)
    (hsd : ∀ p < P, ∀ j, sd p j ^ 2 = popVar N (X p) j) :
    ∀ p < P, ∀ j, (0 < popVar N (X p) j →
        popVar N (standardize (sd p) (center N (X p))) j = 1 ∧ colMean N (standardize (sd p) (center N (X p))) j = 0) ∧
      (popVar N (X p) j = 0 → ∀ i, standardize (sd p) (center N (X p)) i j = 0) :=
  fun p hp j => ⟨fun hpos => standardize_unit_var N (X p) (sd p) hN (hsd p hp) j hpos,
    fun hz => (standardize_zero_var N (X p) (center N (X p)) (sd p) (hsd p hp) j hz).1⟩

/-! ### open findings: where the code as it is does not carry out the operation -/

/-- The property as stated: (a) rescaling / standardising basis-expansion data obtains
the pointwise variance for every domain dimension, and (b) multivariate data can be
normalised whatever the kind of their components. -/
def full_statement : Prop :=
  (∀ d, 1 ≤ d → ∀ var : ℕ → ℚ, ∃ v, basisVarianceImpl d var = .ok v) ∧
  (∀ P (hasBasis : ℕ → Bool), multiNormalizeImpl P hasBasis = .ok ())

/-- The code as it is does neither: on a 2-D domain `np.diag` of the 4-axis covariance
raises `ValueError` (witness: `d = 2`), and a basis-expansion component makes
`normalize` raise `TypeError` (witness: two components, the second a basis expansion). -/
theorem counterexample :
    ¬ (∀ d, 1 ≤ d → ∀ var : ℕ → ℚ, ∃ v, basisVarianceImpl d var = .ok v) ∧
    ¬ (∀ P (hasBasis : ℕ → Bool), multiNormalizeImpl P hasBasis = .ok ()) ∧ ¬ full_statement := by
  have h1 : ¬ (∀ d, 1 ≤ d → ∀ var : ℕ → ℚ, ∃ v, basisVarianceImpl d var = .ok v) := by
    intro h
    obtain ⟨v, hv⟩ := h 2 (by norm_num) (fun _ => 0)
    simp [basisVarianceImpl] at hv
  have h2 : ¬ (∀ P (hasBasis : ℕ → Bool), multiNormalizeImpl P hasBasis = .ok ()) := by
    intro h
    have := h 2 (fun i => i == 1)
    revert this
    decide
  exact ⟨h1, h2, fun h => h1 h.1⟩

/-- On 1-D domains (the negation of the first finding's cause) the implementation model
is the specification: the variance is passed through … -/
theorem basis_variance_partial (var : ℕ → ℚ) : basisVarianceImpl 1 var = .ok var := by
  simp [basisVarianceImpl]

/-- … and without basis-expansion components (the negation of the second finding's
cause) multivariate normalisation is carried out, for any number of components; its
result is then described by `normalize_multivariate_unit`. -/
theorem multi_normalize_partial (P : ℕ) (hasBasis : ℕ → Bool) (h : ∀ i < P, hasBasis i = false) :
    multiNormalizeImpl P hasBasis = .ok () := by
  unfold multiNormalizeImpl
  have : (List.range P).any hasBasis = false := by
    rw [List.any_eq_false]
    intro i hi
    rw [List.mem_range] at hi
    simp [h i hi]
  rw [this]; rfl

/-! ### the tie to the source: constants, operators, guards and axes translated on every run -/

/-- **What the source says today is what the model uses** (dense `center`, `standardize`, `rescale`, `normalize`): the mean is
subtracted; `np.std` of the INPUT over axis 0 with ddof 0, `np.divide(fdata.values, std, out=zeros, where=(std != 0))` with an EXACT
guard; `if weights == 0.0` exact, `np.var` over axis 0 with ddof 0, division by `np.sqrt(weights)`, `(new_data, weights)` returned;
normalisation divides by `self.norm(**kwargs)`.  Re-proved on every run from `Generated/StatsFormulas.lean`. -/
theorem source_transform_formulas : Generated.transformFormulas = modelTransform := by decide

/-- The variance written with the source's `ddof` is the model's population variance, for both `standardize` and `rescale`. -/
theorem coded_variance (N : ℕ) (X : ℕ → ℕ → ℚ) (j : ℕ) :
    varCoded Generated.transformFormulas.stdDdof N X j = popVar N X j ∧
    varCoded Generated.transformFormulas.varDdof N X j = popVar N X j ∧
    Generated.transformFormulas.stdAxis = 0 ∧ Generated.transformFormulas.varAxis = 0 ∧
    Generated.transformFormulas.stdOfInput = true := by
  rw [source_transform_formulas]
  refine ⟨?_, ?_, rfl, rfl, rfl⟩ <;> simp [varCoded, modelTransform, popVar]

/-- The guarded division written with the source's guard and buffer is the model's `standardize`, whatever an un-zeroed buffer or a
tolerance-based guard would have done. -/
theorem coded_standardize (g : ℕ → ℕ → ℚ) (tolGuard : ℕ → Bool) (sd : ℕ → ℚ) (D : ℕ → ℕ → ℚ) (i j : ℕ) :
    standardizeCoded Generated.transformFormulas g tolGuard sd D i j = standardize sd D i j := by
  rw [source_transform_formulas]
  unfold standardizeCoded standardize
  by_cases h : sd j = 0 <;> simp [modelTransform, h]

/-- Centring subtracts the mean; a weight is re-estimated only when it is exactly 0; the divisor of `rescale` is the root `r` of the
weight; the weight is returned; `normalize` divides by the norm computed with the caller's options. -/
theorem coded_center_rescale_normalize (r w : ℚ) :
    Generated.transformFormulas.centerSubtractsMean = true ∧
    Generated.transformFormulas.weightTestExactZero = true ∧
    rescaleDivisorCoded Generated.transformFormulas r w = r ∧
    Generated.transformFormulas.rescaleReturnsWeights = true ∧
    Generated.transformFormulas.normalizeDividesByNorm = true ∧
    Generated.transformFormulas.normalizeForwardsOptions = true := by
  rw [source_transform_formulas]
  exact ⟨rfl, rfl, rfl, rfl, rfl, rfl⟩

/-! ### non-vacuity: the hypotheses of the theorems above are met by concrete objects -/

/-- `center_irregular`: union grid `0 < 1 < 2 < 3` with means `10..13`, own points `1, 3`. -/
example : (([(0, 10), (1, 11), (2, 12), (3, 13)] : List (ℚ × ℚ)).map Prod.fst).Pairwise (· < ·) ∧
    ([1, 3] : List ℚ).Sublist (([(0, 10), (1, 11), (2, 12), (3, 13)] : List (ℚ × ℚ)).map Prod.fst) ∧
    centerIrregular [(0, 10), (1, 11), (2, 12), (3, 13)] [1, 3] [some 5, none] = .ok [some (-6), none] := by
  refine ⟨by decide, by decide, by decide +kernel⟩

/-- The sortedness hypothesis is needed: with the own points in another order the mask
still returns the means in grid order, i.e. attached to the wrong samples. -/
example : centerIrregular [(0, 10), (1, 11), (2, 12), (3, 13)] [3, 1] [some 5, some 6] = .ok [some (-6), some (-7)] := by
  decide +kernel

/-- `normalize_unit`, `rescale_reestimate_one` (`r ≠ 0`, `r² = ‖x‖²`): the curve `(3, 3)` on the
grid `0, 1` has squared norm `9 = 3²`. -/
example : (3 : ℚ) ≠ 0 ∧ (3 : ℚ) ^ 2 = normSq 2 (fun j => j) (fun _ => 3) := by
  refine ⟨by norm_num, ?_⟩
  norm_num [normSq, inner, trapz, Finset.sum_range_succ]

/-- `standardize_unit_var` / `standardize_zero_var`: two curves on two points, variance `1` at
point 0 (`sd = 1`) and `0` at point 1. -/
example : ∀ j, (fun j : ℕ => if j = 0 then (1 : ℚ) else 0) j ^ 2 = popVar 2 (ofMat [[1, 5], [3, 5]]) j ∨ 2 ≤ j := by
  intro j
  rcases j with _ | _ | j
  · left; norm_num [popVar, colMean, ofMat, rd2, Finset.sum_range_succ]
  · left; norm_num [popVar, colMean, ofMat, rd2, Finset.sum_range_succ]
  · right; omega

/-- `rescale_reestimate_one`: the weight of that data set on the grid `0, 1` is `1/2`, not a
square in `ℚ`; of `(0,0),(4,4)` it is `4 = 2²`. -/
example : (2 : ℚ) ^ 2 = rescaleWeight 2 (fun j => j) 2 (ofMat [[0, 0], [4, 4]]) := by
  norm_num [rescaleWeight, popVar, colMean, trapz, ofMat, rd2, Finset.sum_range_succ]

/-- `interp_homogeneous` / `irregular_normalize_unit`: `np.interp` on nodes `0, 1, 3` with ordinates `2, 4, 0`:
`interp(2) = 2`, constant outside the nodes. -/
example : interp 3 (ofList [0, 1, 3]) (ofList [2, 4, 0]) 2 = 2 ∧ interp 3 (ofList [0, 1, 3]) (ofList [2, 4, 0]) 5 = 0 ∧
    interp 3 (ofList [0, 1, 3]) (ofList [2, 4, 0]) (-1) = 2 := by
  refine ⟨by decide +kernel, by decide +kernel, by decide +kernel⟩

/-- `standardize_irregular_total`: threshold `10⁻¹²`, a positive, a tiny and a NaN standard deviation. -/
example : (List.range 3).map (standardizeThr (1 / 10 ^ 12) (fun k => if k = 0 then some 2 else if k = 1 then some 0 else none)
    (fun _ => 6)) = [3, 0, 0] := by decide +kernel

end C10
