/-
C20 — noise and sparsification respect the source data, even on failure.

The theorems are about the definitions of `FDAModel/Simulation.lean` that
`Drivers/C20.lean` executes: `addNoise`, `sparsify`, `combined` (the operation
of the target tree, swap protected by `try/finally`), `combinedCoded` (the swap
without `finally` of the tree before the repair), and their payloads
`addScaled`, `percOf`, `maskOf`, `finalMask`, `applyMask`.

A *schedule* `failAt : Option Nat` makes the `k`-th internal call raise (before
it starts or after it returned); natural failures (no data, 2-D data, a
one-point grid in the fallback) are raised where the code raises them.  All
statements quantify over every dataset, every script of random draws and every
schedule.
-/
import FDAProofs.Lemmas.Simulation
import FDAModel.Generated.SimBodies

namespace C20
open FDA.Sim

/-! ### adding noise -/

/-- Clause "the difference from the source is the drawn noise": every entry of the noisy
values is the source entry plus `r` times the draw at the same place (`r² = noise_variance`). -/
theorem noise_difference (r : Rat) (X Z : List (List Rat)) (i j : Nat) (x z : Rat)
    (hx : entry X i j = some x) (hz : entry Z i j = some z) :
    entry (addScaled r X Z) i j = some (x + r * z) :=
  entry_addScaled r X Z i j x z hx hz

example : entry (addScaled (1/2) [[1, 2], [3, 4]] [[2, 0], [0, -2]]) 1 1 = some (4 + 1/2 * (-2)) :=
  noise_difference _ _ _ 1 1 4 (-2) rfl rfl

/-- Clause "curves on the same grid": the noisy values have the shape of the source values
(the grid itself is copied: `noiseCompPure` keeps `c.grid`). -/
theorem noise_same_shape (r : Rat) (X Z : List (List Rat)) (h : sameShape X Z = true) :
    sameShape X (addScaled r X Z) = true ∧ ∀ c : Comp, (noiseCompPure r c Z).grid = c.grid :=
  ⟨sameShape_addScaled r X Z h, fun _ => rfl⟩

example : sameShape [[1, 2], [3, 4]] [[2, 0], [0, -2]] = true := by decide

/-- Clause "exactly zero for zero variance". -/
theorem noise_zero_variance (r : Rat) (X Z : List (List Rat)) (hr : r * r = 0)
    (h : sameShape X Z = true) : addScaled r X Z = X := by
  have : r = 0 := by
    rcases mul_self_eq_zero.mp hr with h0
    exact h0
  subst this
  exact addScaled_zero X Z h

example : addScaled 0 [[1, 2], [3, 4]] [[2, 0], [0, -2]] = [[1, 2], [3, 4]] :=
  noise_zero_variance 0 _ _ (by norm_num) (by decide)

/-- `add_noise`, whenever it succeeds (any schedule): the simulator had data `d`, the draws
fitted it, and afterwards `noisy_data` is the pure noisy version of `d`; nothing else changed. -/
theorem add_noise_spec (r : Rat) (zs : List (List (List Rat))) (sim : Sim) (f : Option Nat) (st' : St)
    (h : run (addNoise r zs) sim f = (.ok (), st')) :
    ∃ d, sim.data = some d ∧ noiseFits zs d ∧ st'.sim = { sim with noisy := some (noisePure r zs d) } := by
  unfold run FDA.Sim.addNoise at h
  obtain ⟨st1, st2, h1, hb, h2⟩ := call_ok_inv h
  obtain ⟨_, st3, hc, hb⟩ := bind_ok_inv hb
  obtain ⟨d, st4, hg, hb⟩ := bind_ok_inv hb
  obtain ⟨nd, st5, hn, hs⟩ := bind_ok_inv hb
  obtain ⟨s1a, s1b, e1, hcd, e2⟩ := call_ok_inv hc
  have hcd' := Pres.checkData (π := id) s1a
  rw [hcd] at hcd'
  simp only [id] at hcd'
  obtain ⟨hd, e4⟩ := getData_ok_inv hg
  obtain ⟨⟨rfl, hfit⟩, e5⟩ := Ret.noiseData r zs d st4 nd st5 hn
  have e3 : st3.sim = sim := by rw [e2, hcd', e1, h1]
  unfold setNoisy at hs
  simp only [Prod.mk.injEq, true_and] at hs
  refine ⟨d, by rw [← e3]; exact hd, hfit, ?_⟩
  rw [h2, ← hs, e5, e4, e3]

/-- `add_noise` never modifies the clean data nor the sparse data, *whatever its outcome*
(success, natural failure, or a fault injected at any internal call). -/
theorem add_noise_preserves (r : Rat) (zs : List (List (List Rat))) (st : St) :
    ((addNoise r zs) st).2.sim.data = st.sim.data ∧ ((addNoise r zs) st).2.sim.sparse = st.sim.sparse :=
  ⟨Pres.addNoise (π := Sim.data) (fun _ _ => rfl) r zs st, Pres.addNoise (π := Sim.sparse) (fun _ _ => rfl) r zs st⟩

/-- Without data `add_noise` cannot succeed (natural failure `_check_data`). -/
theorem add_noise_requires_data (r : Rat) (zs : List (List (List Rat))) (sim : Sim) (f : Option Nat)
    (hd : sim.data = none) : (run (addNoise r zs) sim f).1 ≠ .ok () := by
  intro h
  obtain ⟨d, hd', _⟩ := add_noise_spec r zs sim f (run (addNoise r zs) sim f).2 (Prod.ext h rfl)
  rw [hd] at hd'; cases hd'

/-! ### sparsification -/

/-- The retained percentage drawn for a curve is a probability: for `percentage ∈ [0,1]`,
`epsilon ≥ 0` and a uniform draw `u ∈ [0,1]`, `max(0,p-e) ≤ perc ≤ min(1,p+e)` and `0 ≤ perc ≤ 1`. -/
theorem perc_in_unit (p e u : Rat) (hp0 : 0 ≤ p) (hp1 : p ≤ 1) (he : 0 ≤ e) (hu0 : 0 ≤ u) (hu1 : u ≤ 1) :
    percLo p e ≤ percOf p e u ∧ percOf p e u ≤ percHi p e ∧ 0 ≤ percOf p e u ∧ percOf p e u ≤ 1 := by
  have hlo0 : 0 ≤ percLo p e := by unfold percLo ratMax; split <;> linarith
  have hhi1 : percHi p e ≤ 1 := by unfold percHi ratMin; split <;> linarith
  have hlohi : percLo p e ≤ percHi p e := by
    unfold percLo percHi ratMax ratMin; split <;> split <;> linarith
  have h1 : 0 ≤ (percHi p e - percLo p e) * u := mul_nonneg (by linarith) hu0
  have h2 : (percHi p e - percLo p e) * u ≤ (percHi p e - percLo p e) * 1 :=
    mul_le_mul_of_nonneg_left hu1 (by linarith)
  unfold percOf
  refine ⟨by linarith, by linarith, by linarith, by linarith⟩

example : percOf (1/2) (1/4) (1/2) = 1/2 := by norm_num [percOf, percLo, percHi, ratMax, ratMin]

/-- Clause "kept values untouched, the others missing": a sample of a sparsified curve is either
the source value at the same place or missing, according to the mask; the curve keeps its length. -/
theorem sparsify_subset (m : List Bool) (row : List Rat) (j : Nat) :
    (∀ x, (applyMask m row)[j]? = some (some x) → row[j]? = some x ∧ m[j]? = some true) ∧
    ((applyMask m row)[j]? = some none → m[j]? = some false) ∧
    (m.length = row.length → (applyMask m row).length = row.length) := by
  refine ⟨?_, ?_, applyMask_length⟩
  · intro x h
    rw [applyMask_get] at h
    cases hm : m[j]? with
    | none => simp [hm] at h
    | some b =>
      cases hr : row[j]? with
      | none => simp [hm, hr] at h
      | some y =>
        simp only [hm, hr] at h
        cases b <;> simp at h
        exact ⟨by rw [h], rfl⟩
  · intro h
    rw [applyMask_get] at h
    cases hm : m[j]? with
    | none => simp [hm] at h
    | some b =>
      cases hr : row[j]? with
      | none => simp [hm, hr] at h
      | some y =>
        simp only [hm, hr] at h
        cases b <;> simp at h
        rfl

example : applyMask [true, false, true] [5, 6, 7] = [some 5, none, some 7] := by decide

/-- Clause "at least two samples": with at least two sampling points, whatever the draws
(`u`, the mask uniforms, and the two fallback draws `a < n`, `b < n-1` of
`choice(arange(n), 2, replace=False)`), at least two samples of the curve are kept. -/
theorem at_least_two (n : Nat) (p e : Rat) (row : List Rat) (s : CurveScript)
    (hn : 2 ≤ n) (hm : s.m.length = n) (hrow : row.length = n) (ha : s.pair.1 < n) (hb : s.pair.2 < n - 1) :
    2 ≤ ((sparseRowPure p e row s).filter Option.isSome).length := by
  unfold sparseRowPure
  rw [count_kept _ _ (by rw [finalMask_length, hm, hrow])]
  unfold finalMask
  by_cases hc : countTrue (maskOf (percOf p e s.u) s.m) < 2
  · simp only [hc, if_true]
    obtain ⟨h1, h2⟩ := pairIdx_lt ha hb
    have hl : (maskOf (percOf p e s.u) s.m).length = n := by rw [maskOf_length, hm]
    have := two_le_count_setPair (m := maskOf (percOf p e s.u) s.m) (i := (pairIdx s.pair).1) (j := (pairIdx s.pair).2)
      (by omega) (by omega) (pairIdx_ne s.pair)
    simpa using this
  · simp only [hc, if_false]; omega

example : 2 ≤ ((sparseRowPure 0 0 [5, 6, 7] ⟨0, [0, 0, 0], (1, 1)⟩).filter Option.isSome).length :=
  at_least_two 3 0 0 _ _ (by omega) rfl rfl (by decide) (by decide)

/-- the same under the weaker hypothesis the successful run provides (`curveFits`: the fallback
draws are only constrained when the fallback is taken) -/
theorem at_least_two_of_fits (n : Nat) (p e : Rat) (row : List Rat) (s : CurveScript)
    (hn : 2 ≤ n) (hf : curveFits n p e row s) :
    2 ≤ ((sparseRowPure p e row s).filter Option.isSome).length := by
  obtain ⟨hm, hrow, hfb⟩ := hf
  unfold sparseRowPure
  rw [count_kept _ _ (by rw [finalMask_length, hm, hrow])]
  unfold finalMask
  by_cases hc : countTrue (maskOf (percOf p e s.u) s.m) < 2
  · obtain ⟨_, ha, hb⟩ := hfb hc
    simp only [hc, if_true]
    obtain ⟨h1, h2⟩ := pairIdx_lt ha hb
    have hl : (maskOf (percOf p e s.u) s.m).length = n := by rw [maskOf_length, hm]
    have := two_le_count_setPair (m := maskOf (percOf p e s.u) s.m) (i := (pairIdx s.pair).1) (j := (pairIdx s.pair).2)
      (by omega) (by omega) (pairIdx_ne s.pair)
    simpa using this
  · simp only [hc, if_false]; omega

/-- The fallback of the tree before the repair (`choice(arange(n), 2)` *with* replacement) does
not guarantee two samples: the two draws may coincide.  This is what the check reports on the
unrepaired tree (`fixed: property=C20 … a single retained sample`). -/
theorem at_least_two_needs_distinct :
    ∃ (m0 : List Bool) (pr : Nat × Nat), pr.1 < m0.length ∧ pr.2 < m0.length ∧
      countTrue (setPair m0 (pairIdxRepl pr)) = 1 :=
  ⟨[false, false, false], (1, 1), by decide⟩

/-- `sparsify` (target tree), whenever it succeeds: the simulator had 1-D-admissible data `d`,
and `sparse_data` is the pure sparsification of `d`; nothing else changed. -/
theorem sparsify_spec_st (p e : Rat) (ss : List (List CurveScript)) (st st' : St)
    (h : (sparsify false p e ss) st = (.ok (), st')) :
    ∃ d, st.sim.data = some d ∧ dimTooLarge d = false ∧ sparseFits p e ss d ∧
      st'.sim = { st.sim with sparse := some (sparsePure p e ss d) } := by
  generalize hsim : st.sim = sim
  unfold FDA.Sim.sparsify at h
  obtain ⟨st1, st2, h1, hb, h2⟩ := call_ok_inv h
  obtain ⟨_, st3, hc, hb⟩ := bind_ok_inv hb
  obtain ⟨_, st3', hc', hb⟩ := bind_ok_inv hb
  obtain ⟨d, st4, hg, hb⟩ := bind_ok_inv hb
  obtain ⟨nd, st5, hn, hs⟩ := bind_ok_inv hb
  obtain ⟨s1a, s1b, e1, hcd, e2⟩ := call_ok_inv hc
  have hcd' := Pres.checkData (π := id) s1a
  rw [hcd] at hcd'
  simp only [id] at hcd'
  obtain ⟨s2a, s2b, e1', hcdim, e2'⟩ := call_ok_inv hc'
  have hcdim' := Pres.checkDim (π := id) s2a
  rw [hcdim] at hcdim'
  simp only [id] at hcdim'
  obtain ⟨hd, e4⟩ := getData_ok_inv hg
  obtain ⟨⟨rfl, hfit⟩, e5⟩ := Ret.sparsifyData p e ss d st4 nd st5 hn
  have e3 : st3.sim = sim := by rw [e2, hcd', e1, h1, hsim]
  have e3' : st3'.sim = sim := by rw [e2', hcdim', e1', e3]
  have hdim := checkDim_ok_inv hcdim d (by rw [e1', e3, ← e3']; exact hd)
  unfold setSparse at hs
  simp only [Prod.mk.injEq, true_and] at hs
  refine ⟨d, by rw [← e3']; exact hd, hdim, hfit, ?_⟩
  rw [h2, ← hs, e5, e4, e3']

/-- the same, phrased with `run` (fresh schedule `f`) -/
theorem sparsify_spec (p e : Rat) (ss : List (List CurveScript)) (sim : Sim) (f : Option Nat) (st' : St)
    (h : run (sparsify false p e ss) sim f = (.ok (), st')) :
    ∃ d, sim.data = some d ∧ dimTooLarge d = false ∧ sparseFits p e ss d ∧
      st'.sim = { sim with sparse := some (sparsePure p e ss d) } :=
  sparsify_spec_st p e ss _ st' h

/-- `sparsify` never modifies the clean data nor the noisy data, whatever its outcome and
whichever fallback is coded ("neither modifies the simulated data"). -/
theorem sparsify_preserves (repl : Bool) (p e : Rat) (ss : List (List CurveScript)) (st : St) :
    ((sparsify repl p e ss) st).2.sim.data = st.sim.data ∧ ((sparsify repl p e ss) st).2.sim.noisy = st.sim.noisy :=
  ⟨Pres.sparsify (π := Sim.data) (fun _ _ => rfl) repl p e ss st,
   Pres.sparsify (π := Sim.noisy) (fun _ _ => rfl) repl p e ss st⟩

/-- The natural failure: on 2-D data (univariate, or multivariate with every component 2-D)
`sparsify` cannot succeed under any schedule. -/
theorem sparsify_rejects_2d (p e : Rat) (ss : List (List CurveScript)) (sim : Sim) (f : Option Nat)
    (d : Data Comp) (hd : sim.data = some d) (h2 : dimTooLarge d = true) :
    (run (sparsify false p e ss) sim f).1 ≠ .ok () := by
  intro h
  obtain ⟨d', hd', hdim, _⟩ := sparsify_spec p e ss sim f (run (sparsify false p e ss) sim f).2 (Prod.ext h rfl)
  rw [hd] at hd'
  cases hd'
  rw [h2] at hdim; cases hdim

example : dimTooLarge (.uni ⟨[[0, 1], [0, 1]], [[1, 2, 3, 4]]⟩) = true := by decide

/-! ### multivariate and 2-D data

`Comp` carries one grid per input dimension and the curves flattened row-major, so every statement
above holds verbatim for 2-D components (`nPoints` = product of the dimensions).  The theorems
below spell out the multivariate case: every component is treated like a univariate dataset, with
its own draws. -/

/-- the components of a dataset (one for univariate data) -/
def comps {C : Type} : Data C → List C
  | .uni c => [c]
  | .multi cs => cs

/-- Noise, multivariate / 2-D: component `q` of the noisy data is component `q` of the data plus
`r` times the `q`-th array of draws, on the same grid(s). -/
theorem noise_every_component (r : Rat) (zs : List (List (List Rat))) (d : Data Comp) (hf : noiseFits zs d)
    (q : Nat) (c : Comp) (z : List (List Rat)) (hc : (comps d)[q]? = some c) (hz : zs[q]? = some z) :
    (comps (noisePure r zs d))[q]? = some ⟨c.grid, addScaled r c.vals z⟩ ∧ sameShape c.vals z = true := by
  cases d with
  | uni c0 =>
    obtain ⟨z0, rfl, hs⟩ := hf
    cases q with
    | zero =>
      simp only [comps, List.getElem?_cons_zero, Option.some.injEq] at hc hz
      subst hc; subst hz
      exact ⟨by simp [comps, noisePure, noiseCompPure], hs⟩
    | succ q => simp [comps] at hc
  | multi cs =>
    obtain ⟨_, hall⟩ := hf
    simp only [comps] at hc
    refine ⟨?_, hall q c z hc hz⟩
    simp [comps, noisePure, List.getElem?_zipWith, hc, hz, noiseCompPure]

/-- … hence entry `(i, j)` (row-major position `j` for 2-D) of EVERY component differs from the
source by `r` times the draw at the same place -/
theorem noise_difference_every_component (r : Rat) (zs : List (List (List Rat))) (d : Data Comp)
    (hf : noiseFits zs d) (q i j : Nat) (c : Comp) (z : List (List Rat)) (x w : Rat)
    (hc : (comps d)[q]? = some c) (hz : zs[q]? = some z)
    (hx : entry c.vals i j = some x) (hw : entry z i j = some w) :
    ∃ c', (comps (noisePure r zs d))[q]? = some c' ∧ c'.grid = c.grid ∧ entry c'.vals i j = some (x + r * w) :=
  ⟨_, (noise_every_component r zs d hf q c z hc hz).1, rfl, entry_addScaled r c.vals z i j x w hx hw⟩

/-- non-vacuity on a 2-D component (2 × 2 grid, one image flattened row-major) -/
example : ∃ c', (comps (noisePure (1/2) [[[0, 0, 0, -2]]] (.uni ⟨[[0, 1], [0, 1]], [[1, 2, 3, 4]]⟩)))[0]? = some c' ∧
    c'.grid = [[0, 1], [0, 1]] ∧ entry c'.vals 0 3 = some ((4 : Rat) + 1/2 * (-2)) :=
  noise_difference_every_component (1/2) [[[0, 0, 0, -2]]] (.uni ⟨[[0, 1], [0, 1]], [[1, 2, 3, 4]]⟩)
    ⟨[[0, 0, 0, -2]], rfl, by decide⟩ 0 0 3 ⟨[[0, 1], [0, 1]], [[1, 2, 3, 4]]⟩ [[0, 0, 0, -2]] 4 (-2) rfl rfl rfl rfl

/-- Sparsification, multivariate / mixed 1-D–2-D: component `q` of the sparse data is the
sparsification of component `q` with its own draws, on the same grid(s). -/
theorem sparsify_every_component (p e : Rat) (sss : List (List CurveScript)) (d : Data Comp)
    (hf : sparseFits p e sss d) (q : Nat) (c : Comp) (ss : List CurveScript)
    (hc : (comps d)[q]? = some c) (hs : sss[q]? = some ss) :
    (comps (sparsePure p e sss d))[q]? = some (sparseCompPure p e c ss) ∧ compFits p e c ss := by
  cases d with
  | uni c0 =>
    obtain ⟨s0, rfl, hfit⟩ := hf
    cases q with
    | zero =>
      simp only [comps, List.getElem?_cons_zero, Option.some.injEq] at hc hs
      subst hc; subst hs
      exact ⟨by simp [comps, sparsePure], hfit⟩
    | succ q => simp [comps] at hc
  | multi cs =>
    obtain ⟨_, hall⟩ := hf
    simp only [comps] at hc
    refine ⟨?_, hall q c ss hc hs⟩
    simp [comps, sparsePure, List.getElem?_zipWith, hc, hs]

/-- Clause "at least two samples", tied to the operation itself: whenever `sparsify` succeeds —
univariate or multivariate, 1-D, 2-D or mixed, any schedule — every curve of every component
with at least two sampling points keeps at least two samples. -/
theorem at_least_two_after_sparsify (p e : Rat) (sss : List (List CurveScript)) (sim : Sim) (f : Option Nat)
    (st' : St) (h : run (sparsify false p e sss) sim f = (.ok (), st')) :
    ∃ d, sim.data = some d ∧ st'.sim.sparse = some (sparsePure p e sss d) ∧
      ∀ (q : Nat) (c : Comp) (ss : List CurveScript), (comps d)[q]? = some c → sss[q]? = some ss → 2 ≤ c.nPoints →
        ∀ (i : Nat) (row : List Rat) (s : CurveScript), c.vals[i]? = some row → ss[i]? = some s →
          2 ≤ ((sparseRowPure p e row s).filter Option.isSome).length := by
  obtain ⟨d, hd, _, hfit, hst⟩ := sparsify_spec p e sss sim f st' h
  refine ⟨d, hd, by rw [hst], ?_⟩
  intro q c ss hc hs hn i row s hrow hsc
  obtain ⟨_, _, hall⟩ := sparsify_every_component p e sss d hfit q c ss hc hs
  exact at_least_two_of_fits c.nPoints p e row s hn (hall i row s hrow hsc)

/-! ### the combined operation -/

/-- Clause "the combined operation sparsifies the noisy curves": whenever
`add_noise_and_sparsify` succeeds, `noisy_data` is the noisy version of the clean data,
`sparse_data` is the sparsification *of that noisy version*, and `data` is the clean data. -/
theorem combined_is_sparsified_noisy (r : Rat) (zs : List (List (List Rat))) (p e : Rat)
    (ss : List (List CurveScript)) (sim : Sim) (f : Option Nat) (st' : St)
    (h : run (combined false r zs p e ss) sim f = (.ok (), st')) :
    ∃ d, sim.data = some d ∧
      st'.sim = { data := some d, noisy := some (noisePure r zs d),
                  sparse := some (sparsePure p e ss (noisePure r zs d)) } := by
  unfold run FDA.Sim.combined at h
  obtain ⟨_, st1, ha, hb1⟩ := bind_ok_inv h
  obtain ⟨s, st2, hg, hb2⟩ := bind_ok_inv hb1
  obtain ⟨_, st3, hsd, hb3⟩ := bind_ok_inv hb2
  obtain ⟨d, hd, _, e1⟩ := add_noise_spec r zs sim f st1 (by unfold run; exact ha)
  unfold getSim at hg
  simp only [Prod.mk.injEq, Except.ok.injEq] at hg
  obtain ⟨hs1, hs2⟩ := hg
  unfold setData at hsd
  simp only [Prod.mk.injEq, true_and] at hsd
  obtain ⟨st4, hsp, e4⟩ := tryFinally_setData_ok_inv hb3
  -- the sparsification ran on the simulator whose data are the noisy data
  have e3 : st3.sim = { sim with noisy := some (noisePure r zs d), data := some (noisePure r zs d) } := by
    rw [← hsd, ← hs2, ← hs1, e1]
  obtain ⟨d', hd', _, _, e5⟩ := sparsify_spec_st p e ss st3 st4 hsp
  rw [e3] at hd'
  simp only [Option.some.injEq] at hd'
  subst hd'
  refine ⟨d, hd, ?_⟩
  rw [e4, e5, e3, ← hs1, e1, hd]

/-- Clause "whether it succeeds or raises at any point, the simulator's clean data are
afterwards exactly what they were before": for EVERY state, script and schedule — hence for
every fault point `failAt = some k` and for the natural failures (2-D data, no data, one-point
grid) — the data after `add_noise_and_sparsify` are the data before. -/
theorem data_restored (repl : Bool) (r : Rat) (zs : List (List (List Rat))) (p e : Rat)
    (ss : List (List CurveScript)) (st : St) :
    ((combined repl r zs p e ss) st).2.sim.data = st.sim.data := by
  unfold FDA.Sim.combined
  have hA := Pres.addNoise (π := Sim.data) (fun _ _ => rfl) r zs st
  rcases bind_cases (addNoise r zs) _ st with ⟨_, st1, h1, h2⟩ | ⟨e', st1, h1, h2⟩
  · rw [h2]
    rw [h1] at hA
    simp only at hA
    -- getSim; setData noisy; try sparsify finally setData tmp
    show ((getSim >>= fun s => setData s.noisy >>= fun _ =>
      tryFinally (sparsify repl p e ss) (setData s.data)) st1).2.sim.data = st.sim.data
    rw [bind_ok (x := getSim) (st := st1) (st' := st1) (a := st1.sim) rfl]
    rw [bind_ok (x := setData st1.sim.noisy) (st := st1)
      (st' := { st1 with sim := { st1.sim with data := st1.sim.noisy } }) (a := ()) rfl]
    rw [tryFinally_setData_data, hA]
  · rw [h2]
    rw [h1] at hA
    exact hA

/-- the same, phrased with the schedule: every fault point `k`, every simulator -/
theorem data_restored_every_fault_point (repl : Bool) (r : Rat) (zs : List (List (List Rat))) (p e : Rat)
    (ss : List (List CurveScript)) (sim : Sim) (k : Nat) :
    (run (combined repl r zs p e ss) sim (some k)).2.sim.data = sim.data :=
  data_restored repl r zs p e ss _

/-- A failure is transparent for what follows.  Let a first `add_noise_and_sparsify` end in ANY
way (success, natural failure, fault injected anywhere; any parameters, either fallback).  If a
second call then succeeds, the simulator ends in exactly the state that the clean data determine:
`data` = the original clean data `d`, `noisy` = noise(`d`), `sparse` = sparsify(noise(`d`)) —
nothing of the failed call is left in what the second call produces. -/
theorem failure_is_transparent (repl₁ : Bool) (r₁ : Rat) (zs₁ : List (List (List Rat))) (p₁ e₁ : Rat)
    (ss₁ : List (List CurveScript)) (f₁ : Option Nat)
    (r : Rat) (zs : List (List (List Rat))) (p e : Rat) (ss : List (List CurveScript)) (f₂ : Option Nat)
    (sim : Sim) (st₂ : St)
    (h : run (combined false r zs p e ss) (run (combined repl₁ r₁ zs₁ p₁ e₁ ss₁) sim f₁).2.sim f₂ = (.ok (), st₂)) :
    ∃ d, sim.data = some d ∧
      st₂.sim = { data := some d, noisy := some (noisePure r zs d), sparse := some (sparsePure p e ss (noisePure r zs d)) } := by
  obtain ⟨d, hd, hst⟩ := combined_is_sparsified_noisy r zs p e ss _ f₂ st₂ h
  have hres : (run (combined repl₁ r₁ zs₁ p₁ e₁ ss₁) sim f₁).2.sim.data = sim.data := by
    unfold run; exact data_restored repl₁ r₁ zs₁ p₁ e₁ ss₁ _
  exact ⟨d, by rw [← hres]; exact hd, hst⟩

/-- … so the second call after a failed one ends exactly like the same call on a fresh simulator
holding the same clean data (whenever both succeed) -/
theorem second_call_like_fresh (repl₁ : Bool) (r₁ : Rat) (zs₁ : List (List (List Rat))) (p₁ e₁ : Rat)
    (ss₁ : List (List CurveScript)) (f₁ : Option Nat)
    (r : Rat) (zs : List (List (List Rat))) (p e : Rat) (ss : List (List CurveScript)) (f₂ f₃ : Option Nat)
    (sim : Sim) (st₂ st₃ : St)
    (h₂ : run (combined false r zs p e ss) (run (combined repl₁ r₁ zs₁ p₁ e₁ ss₁) sim f₁).2.sim f₂ = (.ok (), st₂))
    (h₃ : run (combined false r zs p e ss) { data := sim.data } f₃ = (.ok (), st₃)) :
    st₂.sim = st₃.sim := by
  obtain ⟨d, hd, e2⟩ := failure_is_transparent repl₁ r₁ zs₁ p₁ e₁ ss₁ f₁ r zs p e ss f₂ sim st₂ h₂
  obtain ⟨d', hd', e3⟩ := combined_is_sparsified_noisy r zs p e ss _ f₃ st₃ h₃
  simp only [hd, Option.some.injEq] at hd'
  subst hd'
  rw [e2, e3]

/-- Faults only come from the schedule: a run without scheduled fault never ends with the injected
error, for each of the three operations — every failure of such a run is a natural one (no data,
2-D data, one-point grid in the fallback), so the fault runs of the harness differ from the
fault-free run only by the injected exception. -/
theorem no_spurious_fault (repl : Bool) (r : Rat) (zs : List (List (List Rat))) (p e : Rat)
    (ss : List (List CurveScript)) (sim : Sim) :
    (run (addNoise r zs) sim none).1 ≠ .error .injected ∧
    (run (sparsify repl p e ss) sim none).1 ≠ .error .injected ∧
    (run (combined repl r zs p e ss) sim none).1 ≠ .error .injected :=
  ⟨(NoInj.addNoise r zs _ rfl).1, (NoInj.sparsify repl p e ss _ rfl).1, (NoInj.combined repl r zs p e ss _ rfl).1⟩

/-- The operation as coded before the repair (swap without `finally`) violates the clause on
the natural 2-D failure, with no injected fault: afterwards `data` holds the noisy curves.
This is what the check reports on the unrepaired tree. -/
theorem coded_swap_counterexample :
    ∃ (sim : Sim) (r : Rat) (zs : List (List (List Rat))),
      (run (combinedCoded false r zs 1 0 []) sim none).2.sim.data ≠ sim.data := by
  refine ⟨{ data := some (.uni ⟨[[0, 1], [0, 1]], [[1, 2, 3, 4]]⟩) }, 1, [[[1, 1, 1, 1]]], ?_⟩
  decide +kernel

/-- … and on 1-D data under an injected fault (here: the 20th internal call, `runif`). -/
theorem coded_swap_counterexample_fault :
    ∃ (sim : Sim) (k : Nat),
      (run (combinedCoded false 1 [[[1, 1]]] 1 0 [[⟨0, [0, 0], (0, 0)⟩]]) sim (some k)).2.sim.data ≠ sim.data := by
  refine ⟨{ data := some (.uni ⟨[[0, 1]], [[1, 2]]⟩) }, 20, ?_⟩
  decide +kernel

/-! ### the model is what the source says NOW

`FDAModel/Generated/SimBodies.lean` is re-generated on every run from `FDApy/simulation/simulation.py`
(`harness/c20_translate.py`, syntax only): the bodies of `add_noise`, `sparsify`, `add_noise_and_sparsify`
statement by statement in the statement language `FDA.PySim` (whose meaning is the state machine of
`FDAModel/Simulation.lean`), and the formulas of the two helpers.  The theorems below prove that the
generated bodies ARE the model's operations — as functions of the whole state, fault schedule
included, so for a failure injected at any fault point of any statement — and hence that every
theorem above is about the code as it is written now. -/

section Generated
open FDA.PySim FDA.Generated.SimBodies

/-- `add_noise` as written = the model's `addNoise` (every state, every fault schedule). -/
theorem generated_add_noise_eq_model (P : Params) : addNoiseM P bodies = addNoise P.r P.zs := by
  unfold addNoiseM addNoise bodyM
  simp only [bodies, addNoiseBody, execBody, execStmt, execSimple, M_bind_assoc, M_pure_bind]
  rfl

/-- `sparsify` as written = the model's `sparsify`. -/
theorem generated_sparsify_eq_model (P : Params) : sparsifyM P bodies = sparsify P.repl P.p P.e P.ss := by
  unfold sparsifyM sparsify bodyM
  simp only [bodies, sparsifyBody, execBody, execStmt, execSimple, M_bind_assoc, M_pure_bind]
  rfl

/-- `add_noise_and_sparsify` as written (call `add_noise`; save `data`; put the noisy data in its place;
`try: sparsify finally: restore`) = the model's `combined`: same result and same simulator after EVERY
schedule, i.e. with a failure injected at any fault point of any statement. -/
theorem generated_combined_eq_model (P : Params) :
    combinedM P bodies = combined P.repl P.r P.zs P.p P.e P.ss := by
  have ha := generated_add_noise_eq_model P
  have hs := generated_sparsify_eq_model P
  unfold combinedM bodyM combined
  simp only [bodies, combinedBody, execBody, execStmt, execSimples, execSimple, M_bind_assoc, M_pure_bind] at ha hs ⊢
  simp only [ha, hs]
  funext st
  rcases h : addNoise P.r P.zs st with ⟨r, st1⟩
  cases r with
  | error e => rw [bind_err h, bind_err h]
  | ok u =>
    rw [bind_ok h, bind_ok h]
    simp only [Bind.bind, M.bind, getSim, setData, Pure.pure, M.pure, FDA.Sim.tryFinally]
    rcases hsp : sparsify P.repl P.p P.e P.ss
      { sim := { data := st1.sim.noisy, noisy := st1.sim.noisy, sparse := st1.sim.sparse }, sc := st1.sc } with ⟨r2, st3⟩
    cases r2 <;> simp

/-- hence: the body of `add_noise_and_sparsify` AS WRITTEN restores the clean data whatever happens -/
theorem generated_data_restored (P : Params) (st : St) : ((combinedM P bodies) st).2.sim.data = st.sim.data := by
  rw [generated_combined_eq_model]
  exact data_restored P.repl P.r P.zs P.p P.e P.ss st

/-- A body that puts the noisy data in place of `data` and restores them only after `sparsify` returned
(no `finally`) is NOT the model's operation: on 2-D data the two differ.  (What a translated
unprotected swap, or a double swap, would make of the obligation above.) -/
theorem unprotected_swap_differs :
    ∃ (P : Params) (st : St),
      (combinedM P ⟨addNoiseBody, sparsifyBody, [.s .callAddNoise, .s .saveData, .s .setDataNoisy, .s .callSparsify, .s .restoreData]⟩ st).2.sim.data
        ≠ (combined P.repl P.r P.zs P.p P.e P.ss st).2.sim.data := by
  refine ⟨⟨false, 1, [[[1, 1, 1, 1]]], 1, 0, []⟩, ⟨{ data := some (.uni ⟨[[0, 1], [0, 1]], [[1, 2, 3, 4]]⟩) }, {}⟩, ?_⟩
  decide +kernel

/-- `_add_noise_univariate_data` as written: a noisy sample is `x + std · draw` with `std² = variance`, the
draws are standard normal (`loc = 0`, `scale = 1`), on the grid of the source — the payload `addScaled`. -/
theorem generated_noise_formula (s x z : Rat) :
    noiseEntrySrc s x z = x + s * z ∧ noiseStdIsSqrtOfVariance = true ∧ noiseDrawLoc = 0 ∧ noiseDrawScale = 1 ∧
      noiseKeepsSourceGrid = true := by
  refine ⟨by unfold noiseEntrySrc; ring, rfl, rfl, rfl, rfl⟩

/-- … so entry `(i, j)` of the model's noisy values is the source formula applied to source value and draw -/
theorem generated_noise_entry (r : Rat) (X Z : List (List Rat)) (i j : Nat) (x z : Rat)
    (hx : entry X i j = some x) (hz : entry Z i j = some z) :
    entry (addScaled r X Z) i j = some (noiseEntrySrc r x z) := by
  rw [(generated_noise_formula r x z).1]
  exact noise_difference r X Z i j x z hx hz

/-- `_sparsify_univariate_data` as written: bounds of the retained percentage, probabilities of the mask
(`keep = perc`, `drop = 1 − perc`: a sample is kept iff `1 − perc ≤ u`), fallback when fewer than 2 are
kept, 2 indices, WITHOUT replacement, dropped samples NaN — the model's `percLo`, `percHi`, `maskOf`,
`finalMask` / `pairIdx`, `applyMask`. -/
theorem generated_sparsify_formulas (p e perc : Rat) :
    percLoSrc p e = percLo p e ∧ percHiSrc p e = percHi p e ∧ maskKeepProbSrc perc = perc ∧
      maskDropProbSrc perc = 1 - perc ∧ fallbackThresholdSrc = 2 ∧ fallbackSizeSrc = 2 ∧ fallbackReplaceSrc = false ∧
      droppedAreNaN = true :=
  ⟨rfl, rfl, rfl, rfl, rfl, rfl, rfl, rfl⟩

/-- the at-least-two rule with the constants of the source: the fallback is taken exactly when fewer than
`fallbackThresholdSrc` samples are kept -/
theorem generated_fallback_rule (perc : Rat) (mu : List Rat) (pr : Nat × Nat) :
    finalMask perc mu pr =
      (if countTrue (maskOf perc mu) < fallbackThresholdSrc then setPair (maskOf perc mu) (pairIdx pr) else maskOf perc mu) := rfl

end Generated

end C20
