/-
C15 — irregular data mean what they contain, however they are encoded.
Only property theorems and non-vacuity examples live here; helper lemmas are in
`FDAProofs/Lemmas/Irregular.lean` (and `Lemmas/Tabular.lean`, `Lemmas/Repr.lean`).

Content: a common grid `g` and per curve a row `r` (`none` = not observed).
`encNaN g r` = NaN on the common grid, `encRagged g r` = per-curve sampling points.
Each operation is modelled as the code treats each encoding; the theorems say the
results coincide.
-/
import FDAProofs.Lemmas.Irregular
import FDAProofs.Lemmas.Repr
import FDAModel.Generated.IrregularGuards

namespace C15
open FDA FDA.Tab FDA.Irr

/-! ## Each operation gives the same result on both encodings -/

/-- The NaN filters (`dropna`, `~np.isnan`) turn the NaN encoding into the ragged one. -/
theorem drop_nan_is_ragged (g : List ℚ) (r : Row) : dropNaN (encNaN g r) = encRagged g r := rfl

/-- Long format. -/
theorem to_long_enc_independent (g : List ℚ) (rows : List Row) (i : ℕ) :
    toLongNaN i (rows.map (encNaN g)) = toLongRag i (rows.map (encRagged g)) :=
  toLong_enc g rows i

/-- Mean: every estimator of the mean (`LP`, `interpolation`, any function `S` of the long
table) receives the same samples. -/
theorem mean_inputs_enc_independent {α : Type} (S : List (ℚ × ℕ × ℚ) → α) (g : List ℚ)
    (rows : List Row) :
    S (toLongNaN 0 (rows.map (encNaN g))) = S (toLongRag 0 (rows.map (encRagged g))) := by
  rw [to_long_enc_independent]

/-- … including the P-spline route (`_format_data`: values and weights). -/
theorem mean_ps_inputs_enc_independent (d g : List ℚ) (rows : List Row) :
    formatData d (toLongNaN 0 (rows.map (encNaN g))) =
      formatData d (toLongRag 0 (rows.map (encRagged g))) := by
  rw [to_long_enc_independent]

/-- Smoothing, local polynomials (repaired code: the NaN samples are dropped). -/
theorem lp_inputs_enc_independent (g : List ℚ) (r : Row) :
    lpInputsNaN (encNaN g r) = lpInputsRag (encRagged g r) := rfl

/-- Why the repair is needed: with the unrepaired branch a single missing sample makes
every linear smoother return NaN (`0 · NaN = NaN`), whatever the weights. -/
theorem lp_unrepaired_returns_nan (g : List ℚ) (r : Row) (ws : List ℚ)
    (hlen : r.length = g.length) (hw : g.length ≤ ws.length) (hmiss : none ∈ r) :
    nanDot ws ((lpInputsNaNOld (encNaN g r)).map Prod.snd) = none := by
  unfold lpInputsNaNOld encNaN
  simp only
  rw [List.map_snd_zip (by omega)]
  exact nanDot_none_of_mem ws r (by omega) hmiss

/-- … while on the samples the repaired branch passes on, the result is a number. -/
theorem lp_repaired_no_nan (g : List ℚ) (r : Row) (ws : List ℚ) :
    (nanDot ws (((lpInputsNaN (encNaN g r)).map Prod.snd).map some)).isSome = true :=
  nanDot_isSome ws _

/-- Smoothing, P-splines: zero weights on the missing cells of the common grid give the
same normal equations `B W Bᵀ`, `B W y` as dropping those cells (same knots). -/
theorem zero_weight_equals_dropping (B : ℕ → ℚ → ℚ) (g : List ℚ) (r : Row) (k l : ℕ) :
    psMatNaN B (encNaN g r) k l = psMatRag B (encRagged g r) k l ∧
    psRhsNaN B (encNaN g r) k = psRhsRag B (encRagged g r) k :=
  ⟨ps_mat_enc B g r k l, ps_rhs_enc B g r k⟩

/-- Smoothing, interpolation, and the norm computed through the interpolant. -/
theorem interp_enc_independent (g : List ℚ) (r : Row) (x : ℚ) :
    interpNaN (encNaN g r) x = interpRag (encRagged g r) x := rfl

theorem norm_enc_independent (d g : List ℚ) (r : Row) :
    normSqNaN d (encNaN g r) = normSqRag d (encRagged g r) := rfl

/-- Union grid: with a strictly increasing grid, at least one curve, and every grid point
observed by some curve, `to_dense()` of both encodings is the grid. -/
theorem to_dense_enc_independent (g : List ℚ) (rows : List Row) (hg : g.Pairwise (· < ·))
    (hne : rows ≠ [])
    (hcov : ∀ x ∈ g, ∃ r ∈ rows, x ∈ (ragged g r).map Prod.fst) :
    toDenseNaN (rows.map (encNaN g)) = g ∧ toDenseRag (rows.map (encRagged g)) = g := by
  constructor
  · unfold toDenseNaN
    apply unique_eq_of_mem g _ hg
    intro x
    simp only [List.mem_flatMap, List.mem_map, encNaN]
    constructor
    · rintro ⟨c, ⟨r, _, rfl⟩, hx⟩; exact hx
    · intro hx
      obtain ⟨r, hr⟩ := List.exists_mem_of_ne_nil rows hne
      exact ⟨⟨g, r⟩, ⟨r, hr, rfl⟩, hx⟩
  · unfold toDenseRag
    apply unique_eq_of_mem g _ hg
    intro x
    simp only [List.mem_flatMap, List.mem_map, encRagged]
    constructor
    · rintro ⟨c, ⟨r, _, rfl⟩, hx⟩
      exact (ragged_fst_sublist g r).subset (by simpa using hx)
    · intro hx
      obtain ⟨r, hr, hxr⟩ := hcov x hx
      exact ⟨ragged g r, ⟨r, hr, rfl⟩, by simpa using hxr⟩

/-- Centring (the mean `μ` on the union grid, picked through the `np.isin` masks). -/
theorem center_enc_independent (g μ : List ℚ) (r : Row) (hlen : r.length = g.length)
    (hμ : μ.length = g.length) (hnd : g.Nodup) :
    dropNaN (centerNaN g μ (encNaN g r)) = centerRag g μ (encRagged g r) := by
  unfold dropNaN centerNaN centerRag encNaN encRagged
  simp only
  exact center_ragged g r μ g ((ragged g r).map Prod.fst) hlen hμ hnd (fun _ h => h) (fun _ _ => Iff.rfl)

/-- Noise variance (difference-based estimator on the observed values). -/
theorem noise_variance_enc_independent (w g : List ℚ) (rows : List Row)
    (hlen : ∀ r ∈ rows, r.length ≤ g.length) :
    noiseVarNaN w (rows.map (encNaN g)) = noiseVarRag w (rows.map (encRagged g)) := by
  unfold noiseVarNaN noiseVarRag
  simp only [List.map_map, List.length_map]
  congr 2
  apply List.map_congr_left
  intro r hr
  simp only [Function.comp, encNaN, encRagged]
  rw [ragged_snd g r (hlen r hr)]

/-- Decoding: placed back on the grid through the `np.isin` mask (as `covariance` does),
a ragged curve is the original row. -/
theorem decode_ragged (g : List ℚ) (r : Row) (hlen : r.length = g.length) (hnd : g.Nodup) :
    onGridRag g (encRagged g r) = r := by
  unfold onGridRag encRagged
  exact scatter_ragged g r _ hlen hnd (fun _ _ => Iff.rfl)

/-- Raw covariance: both encodings give the covariance of the content (pairwise-complete
averages of products). -/
theorem cov_enc_independent (g : List ℚ) (rows : List Row) (j k : ℕ)
    (hlen : ∀ r ∈ rows, r.length = g.length) (hnd : g.Nodup) :
    covNaN g (rows.map (encNaN g)) j k = covRag g (rows.map (encRagged g)) j k ∧
    covRag g (rows.map (encRagged g)) j k = covRaw rows j k := by
  have h1 : (rows.map (encNaN g)).map (onGridNaN g) = (rows.map (encRagged g)).map (onGridRag g) := by
    simp only [List.map_map]
    rfl
  have h2 : (rows.map (encRagged g)).map (onGridRag g) = rows := by
    simp only [List.map_map]
    conv_rhs => rw [← List.map_id rows]
    apply List.map_congr_left
    intro r hr
    exact decode_ragged g r (hlen r hr) hnd
  unfold covNaN covRag
  rw [h1, h2]
  exact ⟨rfl, rfl⟩

/-- Gram matrix (`inner_product`: centre, interpolate, dense Gram matrix). -/
theorem gram_enc_independent (g μ : List ℚ) (rows : List Row) (σ2 : ℚ) (i k : ℕ)
    (hlen : ∀ r ∈ rows, r.length = g.length) (hμ : μ.length = g.length) (hnd : g.Nodup) :
    gramNaN g μ (rows.map (encNaN g)) σ2 i k = gramRag g μ (rows.map (encRagged g)) σ2 i k := by
  unfold gramNaN gramRag
  simp only [List.length_map, List.map_map]
  have hfun : (fun a j => interpNaN ((rows.map (centerNaN g μ ∘ encNaN g)).getD a ⟨[], []⟩) (g.getD j 0)) =
      (fun a j => interpRag ((rows.map (centerRag g μ ∘ encRagged g)).getD a []) (g.getD j 0)) := by
    funext a j
    simp only [List.getD_eq_getElem?_getD, List.getElem?_map]
    cases h : rows[a]? with
    | none => simp [interpNaN, interpRag, dropNaN, ragged]
    | some r =>
      have hr : r ∈ rows := List.mem_of_getElem? h
      simp only [Option.map_some, Option.getD_some, Function.comp, interpNaN, interpRag]
      rw [center_enc_independent g μ r (hlen r hr) hμ hnd]
  rw [hfun]

/-- Arithmetic between two datasets with the same missingness pattern, and with a number. -/
theorem arithmetic_enc_independent (f : ℚ → ℚ → ℚ) (g : List ℚ) (r s : Row)
    (hpat : r.map Option.isSome = s.map Option.isSome) :
    dropNaN (opNaN f (encNaN g r) (encNaN g s)) = opRag f (encRagged g r) (encRagged g s) := by
  unfold dropNaN opNaN opRag encNaN encRagged
  simp only
  exact op_ragged f g r s hpat

theorem arithmetic_number_enc_independent (f : ℚ → ℚ → ℚ) (a : ℚ) (g : List ℚ) (r : Row) :
    dropNaN (opNumNaN f a (encNaN g r)) = opNumRag f a (encRagged g r) := by
  unfold dropNaN opNumNaN opNumRag encNaN encRagged
  simp only
  exact opnum_ragged f a g r

/-! ## The mean, the Gram matrix and the covariance end to end (smoother = parameter) -/

/-- The pooled samples handed to the mean smoother — binned to per-point averages when
`approx` and more than 2000 samples are pooled — do not depend on the encoding: the size
switch is decided on the OBSERVED samples in both. -/
theorem mean_pooling_enc_independent (approx : Bool) (g : List ℚ) (rows : List Row) :
    meanInputs approx (toLongNaN 0 (rows.map (encNaN g))) =
      meanInputs approx (toLongRag 0 (rows.map (encRagged g))) := by
  rw [to_long_enc_independent]

/-- Hence the estimated mean, for every smoother `S` (local polynomials, P-splines,
interpolation) and every evaluation grid `d`. -/
theorem mean_enc_independent (S : List (ℚ × ℚ) → List ℚ → List ℚ) (approx : Bool) (d g : List ℚ)
    (rows : List Row) :
    meanNaN S approx d (rows.map (encNaN g)) = meanRag S approx d (rows.map (encRagged g)) := by
  unfold meanNaN meanRag
  rw [mean_pooling_enc_independent]

/-- Binning is the identity when every pooled point is observed once (strictly increasing
pooled abscissae, e.g. a single curve): the `approx` branch then changes nothing. -/
theorem binning_identity (long : List (ℚ × ℕ × ℚ))
    (hs : (long.map fun r => r.1).Pairwise (· < ·)) (approx : Bool) :
    meanInputs approx long = long.map fun r => (r.1, r.2.2) := by
  unfold meanInputs
  split
  · exact binned_of_sorted long hs
  · rfl

/-- `inner_product` end to end (estimate the mean with any smoother, centre, interpolate,
dense Gram matrix) is encoding independent. -/
theorem inner_product_enc_independent (S : List (ℚ × ℚ) → List ℚ → List ℚ) (approx : Bool)
    (g : List ℚ) (rows : List Row) (σ2 : ℚ) (i k : ℕ)
    (hS : ∀ inp, (S inp g).length = g.length)
    (hlen : ∀ r ∈ rows, r.length = g.length) (hnd : g.Nodup) :
    innerProductNaN S approx g (rows.map (encNaN g)) σ2 i k =
      innerProductRag S approx g (rows.map (encRagged g)) σ2 i k := by
  unfold innerProductNaN innerProductRag
  rw [mean_enc_independent]
  exact gram_enc_independent g _ rows σ2 i k hlen (hS _) hnd

/-- `covariance(smooth=False)` end to end (estimate the mean, centre, pairwise-complete
averages of products) is encoding independent. -/
theorem covariance_enc_independent (S : List (ℚ × ℚ) → List ℚ → List ℚ) (approx : Bool)
    (g : List ℚ) (rows : List Row) (j k : ℕ)
    (hS : ∀ inp, (S inp g).length = g.length)
    (hlen : ∀ r ∈ rows, r.length = g.length) (hnd : g.Nodup) :
    covarianceNaN S approx g (rows.map (encNaN g)) j k =
      covarianceRag S approx g (rows.map (encRagged g)) j k := by
  unfold covarianceNaN covarianceRag covNaN covRag
  rw [mean_enc_independent]
  congr 1
  simp only [List.map_map]
  apply List.map_congr_left
  intro r hr
  simp only [Function.comp, onGridNaN]
  rw [center_enc_independent g _ r (hlen r hr) (by unfold meanRag; exact hS _) hnd]

/-- Interpolation smoothing is linear in the values (same sampling points). -/
theorem interp_linear (c : List (ℚ × ℚ × ℚ)) (a b x : ℚ) :
    interp (c.map fun p => (p.1, a * p.2.1 + b * p.2.2)) x =
      a * interp (c.map fun p => (p.1, p.2.1)) x + b * interp (c.map fun p => (p.1, p.2.2)) x :=
  FDA.Irr.interp_linear c a b x

/-! ## Standardisation: guarded division, NaN-preserving buffer -/

/-- A missing sample stays missing whatever the deviation (repaired buffer). -/
theorem standardize_keeps_missing (s : Option ℚ) : stdCell none s = none := by
  unfold stdCell
  cases h : stdGuard s <;> simp [stdBuffer]

/-- An observed sample comes back as a number, never NaN: a NaN or tiny deviation fails the
guard and the buffer holds 0 there. -/
theorem standardize_observed_finite (x : ℚ) (s : Option ℚ) : (stdCell (some x) s).isSome = true := by
  unfold stdCell
  cases hs : s with
  | none => simp [stdGuard, stdBuffer]
  | some y => by_cases h : stdGuard (some y) <;> simp [h, stdBuffer]

/-- The unrepaired zero-filled buffer turned a missing sample into an observed 0 wherever
the guard fails (e.g. a NaN deviation): the motivation of the repair. -/
theorem standardize_old_fills_missing : stdCellOld none none = some 0 := by
  simp [stdCellOld, stdGuard, stdBufferOld]

/-- `standardize` is encoding independent (deviations `sd` on the union grid, picked through
the `np.isin` masks; grid without duplicates). -/
theorem standardize_enc_independent (g : List ℚ) (sd : List (Option ℚ)) (r : Row)
    (hlen : r.length = g.length) (hsd : sd.length = g.length) (hnd : g.Nodup) :
    dropNaN (standardizeNaN g sd (encNaN g r)) = standardizeRag g sd (encRagged g r) := by
  unfold dropNaN standardizeNaN standardizeRag encNaN encRagged
  simp only
  exact cell_ragged stdCell (fun x s => (stdCell (some x) s).getD 0) standardize_keeps_missing
    (fun x s => by
      have h := standardize_observed_finite x s
      cases hc : stdCell (some x) s with
      | none => rw [hc] at h; simp at h
      | some y => simp)
    g r sd g ((ragged g r).map Prod.fst) hlen hsd hnd (fun _ h => h) (fun _ _ => Iff.rfl)

/-! ## Translator tie: guards and bookkeeping re-read from the source -/

/-- The guard and the output buffer of `standardize`, the binned-mean switch of `mean` (on the
length of the pooled long table) and the smoothing-weight rule of `covariance` (masked on the
raw covariance), as `harness/c15_translate.py` reads them off the source on every run, ARE
the model's. -/
theorem guards_match_source :
    (∀ s, FDA.Generated.IrregularGuards.stdGuardSrc s = stdGuard s) ∧
    (∀ v, FDA.Generated.IrregularGuards.stdBufferSrc v = stdBuffer v) ∧
    (∀ a n, FDA.Generated.IrregularGuards.approxSwitchSrc a n = approxSwitch a n) ∧
    FDA.Generated.IrregularGuards.approxCountsPooledSamples = true ∧
    (∀ c, FDA.Generated.IrregularGuards.covWeightSrc c = covWeight c) ∧
    FDA.Generated.IrregularGuards.covWeightMaskOnCov = true := by
  refine ⟨?_, ?_, ?_, rfl, ?_, rfl⟩
  · intro s; cases s <;> rfl
  · intro v; cases v <;> rfl
  · intro a n; rfl
  · intro c; rfl

/-! ## Complete data coincide with the dense twin -/

/-- `np.interp` returns the sample at a sample point (strictly increasing abscissae). -/
theorem interp_at_sample (c : List (ℚ × ℚ)) (hs : (c.map Prod.fst).Pairwise (· < ·))
    (x y : ℚ) (h : (x, y) ∈ c) : interp c x = y :=
  FDA.Irr.interp_at_sample c hs x y h

/-- With no missing sample the ragged encoding lists the whole grid … -/
theorem complete_ragged (g xs : List ℚ) : encRagged g (xs.map some) = g.zip xs :=
  ragged_complete g xs

/-- … the long table is the dense long table (every point, every observation) … -/
theorem complete_to_long (g : List ℚ) (Xs : List (List ℚ)) (i : ℕ) :
    toLongNaN i ((Xs.map fun xs => xs.map some).map (encNaN g)) =
      toLongRag i (Xs.map fun xs => g.zip xs) := by
  rw [to_long_enc_independent]
  simp only [List.map_map]
  congr 1
  apply List.map_congr_left
  intro xs _
  exact complete_ragged g xs

/-- … interpolation returns the data (so `norm`, `inner_product` see the dense curves) … -/
theorem complete_interp_identity (g xs : List ℚ) (hg : g.Pairwise (· < ·))
    (hlen : xs.length = g.length) (j : ℕ) (hj : j < g.length) :
    interpRag (encRagged g (xs.map some)) (g.getD j 0) = xs.getD j 0 := by
  rw [complete_ragged]
  unfold interpRag
  apply interp_at_sample
  · rw [List.map_fst_zip (by omega)]; exact hg
  · have hj' : j < xs.length := by omega
    have : (g.zip xs)[j]'(by simp [List.length_zip]; omega) = (g[j], xs[j]) := by simp
    rw [show g.getD j 0 = g[j] by simp [List.getD_eq_getElem?_getD, hj],
      show xs.getD j 0 = xs[j] by simp [List.getD_eq_getElem?_getD, hj'], ← this]
    exact List.getElem_mem _

/-- … hence the squared norm is the dense squared norm … -/
theorem complete_norm (g xs : List ℚ) (hg : g.Pairwise (· < ·)) (hlen : xs.length = g.length) :
    normSqRag g (encRagged g (xs.map some)) =
      normSq g.length (fun j => g.getD j 0) (fun j => xs.getD j 0) := by
  unfold normSqRag normSq inner
  apply trapz_congr
  intro j hj
  simp only
  rw [complete_interp_identity g xs hg hlen j hj]

/-- … the noise-variance estimator sees the whole curve … -/
theorem complete_noise (w xs : List ℚ) : noiseVar1 w ((xs.map some).filterMap id) = noiseVar1 w xs := by
  congr 1
  induction xs with
  | nil => rfl
  | cons x xs ih => simp

/-- … the P-spline normal equations are those of the dense fit (unit weights) … -/
theorem complete_ps (B : ℕ → ℚ → ℚ) (g xs : List ℚ) (k l : ℕ) :
    psMatNaN B (encNaN g (xs.map some)) k l = ((g.zip xs).map fun p => B k p.1 * 1 * B l p.1).sum ∧
    psRhsNaN B (encNaN g (xs.map some)) k = ((g.zip xs).map fun p => B k p.1 * 1 * p.2).sum := by
  rw [(zero_weight_equals_dropping B g (xs.map some) k l).1,
    (zero_weight_equals_dropping B g (xs.map some) k l).2, complete_ragged]
  exact ⟨rfl, rfl⟩

/-- … the raw covariance is `XᵀX / n` (the dense class divides by `n − 1`) … -/
theorem complete_cov (Xs : List (List ℚ)) (j k : ℕ)
    (hlen : ∀ xs ∈ Xs, j < xs.length ∧ k < xs.length) :
    covRaw (Xs.map fun xs => xs.map some) j k =
      (Xs.map fun xs => xs.getD j 0 * xs.getD k 0).sum / Xs.length := by
  unfold covRaw
  simp only [List.map_map]
  have hs : (Xs.map ((fun r : Row => prodOpt (r.getD j none) (r.getD k none)) ∘ fun xs => xs.map some)) =
      Xs.map fun xs => xs.getD j 0 * xs.getD k 0 := by
    apply List.map_congr_left
    intro xs hx
    simp only [Function.comp]
    rw [getD_map_some xs j (hlen xs hx).1, getD_map_some xs k (hlen xs hx).2]
    rfl
  have hn : (Xs.map ((fun r : Row => bothOpt (r.getD j none) (r.getD k none)) ∘ fun xs => xs.map some)) =
      Xs.map fun _ => (1 : ℚ) := by
    apply List.map_congr_left
    intro xs hx
    simp only [Function.comp]
    rw [getD_map_some xs j (hlen xs hx).1, getD_map_some xs k (hlen xs hx).2]
    rfl
  rw [hs, hn]
  have hc : (Xs.map fun _ => (1 : ℚ)).sum = Xs.length := by
    induction Xs with
    | nil => simp
    | cons x Xs ih => simp; ring
  rw [hc]
  by_cases h0 : (Xs.length : ℚ) = 0
  · have : Xs = [] := by
      have : Xs.length = 0 := by exact_mod_cast h0
      exact List.eq_nil_of_length_eq_zero this
    subst this
    simp
  · rw [if_neg h0]

/-- … with the exact factor: for complete CENTRED data the raw covariance of the irregular
class is `(n−1)/n` times the covariance of the dense class (`Xcᵀ Xc / (n−1)`). -/
theorem complete_cov_dense (N m : ℕ) (X : ℕ → ℕ → ℚ) (j k : ℕ) (hj : j < m) (hk : k < m)
    (hN : 2 ≤ N) :
    covRaw ((List.range N).map fun i => (List.range m).map fun p => some (center N X i p)) j k =
      ((N : ℚ) - 1) / N * covDense N X j k := by
  have h := complete_cov ((List.range N).map fun i => (List.range m).map fun p => center N X i p) j k
    (by
      intro xs hxs
      obtain ⟨i, _, rfl⟩ := List.mem_map.mp hxs
      simp [hj, hk])
  simp only [List.map_map] at h
  have e : (fun xs : List ℚ => xs.map some) ∘ (fun i => (List.range m).map fun p => center N X i p) =
      fun i => (List.range m).map fun p => some (center N X i p) := by
    funext i; simp [Function.comp]
  rw [e] at h
  rw [h]
  have e2 : ((fun xs : List ℚ => xs.getD j 0 * xs.getD k 0) ∘ fun i => (List.range m).map fun p => center N X i p) =
      fun i => center N X i j * center N X i k := by
    funext i
    simp [Function.comp, List.getD_eq_getElem?_getD, hj, hk]
  rw [e2, sum_map_range]
  unfold covDense
  have h1 : (N : ℚ) ≠ 0 := by
    have : (2 : ℚ) ≤ N := by exact_mod_cast hN
    linarith
  have h2 : (N : ℚ) - 1 ≠ 0 := by
    have : (2 : ℚ) ≤ N := by exact_mod_cast hN
    intro h; linarith
  simp only [List.length_map, List.length_range]
  field_simp

/-- … and the Gram matrix does not depend on the (smoothed) mean that was subtracted
first: centring twice is centring once.  On complete data `inner_product` therefore
returns the dense Gram matrix of the exactly centred curves. -/
theorem gram_shift_invariant (N n : ℕ) (hN : 0 < N) (t : ℕ → ℚ) (X : ℕ → ℕ → ℚ) (μ : ℕ → ℚ)
    (σ2 : ℚ) (i k : ℕ) :
    gramImpl N n t (fun i j => X i j - μ j) σ2 i k = gramImpl N n t X σ2 i k := by
  have hc : ∀ a, center N (fun i j => X i j - μ j) a = center N X a := by
    intro a; funext j; exact center_shift N hN X μ a j
  unfold gramImpl
  simp only [hc]

/-! ## No NaN from finite samples -/

/-- A grid point observed by some curve has a positive pair count on the diagonal: the
variance there is an average of observed squares, not the `where=` fallback. -/
theorem cov_count_diag_pos (rows : List Row) (j : ℕ) (r : Row) (hr : r ∈ rows) (y : ℚ)
    (hobs : r.getD j none = some y) : 0 < covCount rows j j := by
  unfold covCount
  have hnn : ∀ x ∈ rows.map (fun r : Row => bothOpt (r.getD j none) (r.getD j none)), (0 : ℚ) ≤ x := by
    intro x hx
    obtain ⟨r', _, rfl⟩ := List.mem_map.mp hx
    unfold bothOpt
    cases r'.getD j none <;> simp
  have hmem : (1 : ℚ) ∈ rows.map (fun r : Row => bothOpt (r.getD j none) (r.getD j none)) := by
    apply List.mem_map.mpr
    exact ⟨r, hr, by rw [hobs]; rfl⟩
  have := List.single_le_sum hnn 1 hmem
  linarith

/-! ## Where the code does not meet the property (open findings) -/

/-- The number of sampling points per curve (the default LP bandwidth is
`mean(n_points)^(-1/5)`) should not depend on the encoding. -/
def default_bandwidth_full_statement : Prop :=
  ∀ (g : List ℚ) (r : Row), r.length = g.length → nPointsNaN (encNaN g r) = nPointsRag (encRagged g r)

/-- It does: the NaN encoding counts the missing cells. -/
theorem default_bandwidth_counterexample : ¬ default_bandwidth_full_statement := by
  intro h
  have := h [0, 1, 2] [some 1, none, some 2] rfl
  simp [nPointsNaN, nPointsRag, encNaN, encRagged, ragged] at this

/-- It holds for complete curves. -/
theorem n_points_partial (g xs : List ℚ) (hlen : xs.length = g.length) :
    nPointsNaN (encNaN g (xs.map some)) = nPointsRag (encRagged g (xs.map some)) := by
  rw [complete_ragged]
  simp [nPointsNaN, nPointsRag, encNaN, List.length_zip, hlen]

/-- `mean(method_smoothing="PS")` on complete data should smooth the pointwise mean (as
the dense twin does); `_format_data` keeps the value listed last instead.  Two complete
curves `(1, 1)` and `(3, 5)` on the grid `{0, 1}`: the P-spline is fitted to `(3, 5)`, the
mean curve is `(2, 3)`. -/
theorem mean_ps_counterexample :
    formatData [0, 1] (toLongRag 0 [[(0, 1), (1, 1)], [(0, 3), (1, 5)]]) = [3, 5] ∧
    ([3, 5] : List ℚ) ≠ [(1 + 3) / 2, (1 + 5) / 2] := by
  constructor
  · simp [formatData, toLongRag, List.filter]
  · norm_num

/-- The dense twin with the same smoothing settings subtracts the smoothed mean only; the
irregular route also subtracts the exact mean.  The two Gram matrices differ as soon as
the subtracted curve is not the exact mean (one curve `X = 1`, `μ = 0` on `[0, 1]`). -/
theorem gram_double_centring_counterexample :
    ¬ ∀ (N n : ℕ) (t : ℕ → ℚ) (X : ℕ → ℕ → ℚ) (μ : ℕ → ℚ) (i k : ℕ),
      inner n t (fun j => X i j - μ j) (fun j => X k j - μ j) =
        gram N n t (fun i j => X i j - μ j) i k := by
  intro h
  have := h 1 2 (fun j => (j : ℚ)) (fun _ _ => 1) (fun _ => 0) 0 0
  norm_num [gram, inner, trapz, center, colMean, Finset.sum_range_succ] at this

/-! ## Non-vacuity -/

/-- A strictly increasing grid, rows of the right length with a missing cell, every grid
point observed by some curve: the hypotheses of the theorems above are satisfiable. -/
example : ([0, 1, 3] : List ℚ).Pairwise (· < ·) ∧ ([0, 1, 3] : List ℚ).Nodup ∧
    (∀ x ∈ ([0, 1, 3] : List ℚ), ∃ r ∈ ([[some 1, none, some 2], [none, some 4, some 5]] : List Row),
      x ∈ (ragged [0, 1, 3] r).map Prod.fst) := by
  refine ⟨by norm_num, by norm_num, ?_⟩
  intro x hx
  simp only [List.mem_cons, List.not_mem_nil, or_false] at hx
  rcases hx with rfl | rfl | rfl
  · exact ⟨[some 1, none, some 2], by simp, by simp [ragged]⟩
  · exact ⟨[none, some 4, some 5], by simp, by simp [ragged]⟩
  · exact ⟨[some 1, none, some 2], by simp, by simp [ragged]⟩

/-- `lp_unrepaired_returns_nan` on a concrete curve. -/
example : nanDot [1, 1, 1] ((lpInputsNaNOld (encNaN [0, 1, 3] [some 1, none, some 2])).map Prod.snd) = none := by
  simp [lpInputsNaNOld, encNaN, nanDot]

/-- `interp` between and outside the samples (the model of `np.interp`). -/
example : interp [(0, 1), (3, 3)] 1 = 5 / 3 ∧ interp [(0, 1), (3, 3)] (-1) = 1 ∧ interp [(0, 1), (3, 3)] 7 = 3 := by
  norm_num [interp]

/-- `binning_identity`: strictly increasing pooled abscissae (one curve). -/
example : (([(0, 0, 1), (1, 0, 4), (3, 0, 2)] : List (ℚ × ℕ × ℚ)).map fun r => r.1).Pairwise (· < ·) := by
  norm_num

/-- `inner_product_enc_independent` / `covariance_enc_independent`: a smoother returning one value
per evaluation point (here the pooled average everywhere) meets `hS`. -/
example : ∀ inp : List (ℚ × ℚ), ((fun (inp : List (ℚ × ℚ)) (d : List ℚ) =>
    d.map fun _ => (inp.map Prod.snd).sum / inp.length) inp [0, 1, 3]).length = ([0, 1, 3] : List ℚ).length := by
  intro inp; simp

end C15
