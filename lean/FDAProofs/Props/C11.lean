/-
C11 — containers never reach an inconsistent state (over all operation histories).

Only property theorems and non-vacuity examples; helper lemmas are in
`FDAProofs/Lemmas/Containers.lean` and `FDAProofs/Lemmas/Dict.lean`.
The model is `FDA.Containers.step guard` (`lean/FDAModel/Containers.lean`), the function the
driver `Drivers/C11.lean` replays; `guard = true` (`stepSpec`) is the state machine with the
`argvals_stand` check the property asks for, `guard = false` (`stepImpl`) the setter as coded.
-/
import FDAModel.Generated.Setters
import FDAProofs.Lemmas.Containers

namespace C11
open FDA.Dict FDA.Slice FDA.Select FDA.Containers

/-! ## Consistency over all histories -/

/-- The state before any construction is consistent. -/
theorem inv_init : StateInv State.empty := trivial

/-- A successfully constructed dense object is consistent (values and sampling points agree
on the number of points in every dimension; the standardised points track the points). -/
theorem construct_dense_consistent {a : ArgV} {v : ValV} {x : Grid} (h : mkDense a v = .ok x) :
    GridInv x := mkDense_inv h

example : GridInv (.dense [3, 2] 1 [0, 1] [3, 2] (.dense [3, 2])) :=
  construct_dense_consistent (a := .dense [3, 2] 1) (v := .dense [0, 1] [3, 2]) rfl

/-- A successfully constructed irregular object is consistent. -/
theorem construct_irreg_consistent {a : ArgV} {v : ValV} {x : Grid} (h : mkIrreg a v = .ok x) :
    GridInv x := mkIrreg_inv h

example : ∃ x, mkIrreg (.irreg [(0, ⟨[3], 0⟩), (2, ⟨[2], 1⟩)]) (.irreg [(2, ⟨[2], 5⟩), (0, ⟨[3], 6⟩)]) = .ok x :=
  ⟨_, rfl⟩

/-- One operation — any of construct, set argvals / values / argvals_stand, append, extend,
insert, remove, pop, clear, reverse, getitem, concatenate, with any argument — keeps a
consistent state consistent (state machine with the guarded `argvals_stand` setter). -/
theorem inv_step (s : State) (op : Op) (h : StateInv s) : StateInv (stepSpec s op).1 :=
  step_preserves true GridInv (fun _ hx => hx)
    (fun _ _ _ hx hm => setArg_inv hx.noStand hm)
    (fun _ _ _ hx hm => setVal_inv hx hm)
    (fun _ _ _ hx hm => setStand_true_inv hx.noStand hm) s op h

/-- Every state reachable from a consistent one by any history is consistent. -/
theorem reachable_from (ops : List Op) (s : State) (h : StateInv s) : StateInv (run true s ops) := by
  induction ops generalizing s with
  | nil => exact h
  | cons op ops ih => exact ih _ (inv_step s op h)

/-- Every state reachable from scratch by any history of any length is consistent. -/
theorem reachable (ops : List Op) : StateInv (run true State.empty ops) :=
  reachable_from ops _ inv_init

/-- A rejected (or inapplicable) operation leaves the object as it was — for both setters. -/
theorem reject_unchanged (g : Bool) (s : State) (op : Op) (h : (step g s op).2 ≠ .ok) :
    (step g s op).1 = s := by
  unfold step at h ⊢
  cases op <;> cases s <;> first
    | rfl
    | exact settle_unchanged h
    | (simp only []; split <;> rfl)
    | (exfalso; exact h rfl)

example : (stepSpec (.uni (.dense [3] 1 [0, 1, 2] [3] (.dense [3]))) (.setArg (.dense [4] 0))).2 = .err .valueError := by
  decide

/-! ## What "consistent" means -/

/-- Dense object: values have exactly the sampling points' numbers of points per dimension and
the standardised points have them too. -/
theorem consistent_dense {pts vpts : Shape} {g : Nat} {rows : List Nat} {st : Stand}
    (h : GridInv (.dense pts g rows vpts st)) : vpts = pts ∧ st = .dense pts := by
  obtain ⟨h1, h2, _⟩ := h
  refine ⟨by simpa [Grid.pointsAgree] using h1, ?_⟩
  cases st with
  | dense p => simpa [Grid.standTracks, Grid.stand, Grid.trackedStand, standOfDense, Stand.sameKind, Stand.same] using h2
  | irreg o => simp [Grid.standTracks, Grid.stand, Grid.trackedStand, standOfDense, Stand.sameKind] at h2

/-- Irregular object: for every label the sampling points and the values agree on the number
of points in every dimension — and a label is present in one iff it is present in the other. -/
theorem consistent_irreg {a : D AObs} {v : D VObs} {st : Stand} (h : GridInv (.irreg a v st)) (k : Int) :
    (get? a k).map AObs.pts = (get? v k).map VObs.shape :=
  eqBy_lookup h.2.2.1 h.1 k

/-- Irregular object: as many sampling grids as value arrays. -/
theorem consistent_irreg_nobs {a : D AObs} {v : D VObs} {st : Stand} (h : GridInv (.irreg a v st)) :
    a.length = v.length :=
  ((eqBy_iff _ _ _ _).1 h.1).1

/-- Multivariate object: all components have the number of observations `n_obs` reports. -/
theorem consistent_multi {cs : List Grid} (h : StateInv (.multi cs)) (c : Grid) (hc : c ∈ cs) :
    State.nObs (.multi cs) = some c.nObs := by
  cases cs with
  | nil => simp at hc
  | cons d ds => simp only [State.nObs]; rw [h.2 d List.mem_cons_self c hc]

/-! ## Incompatible arguments are rejected (the guards exist) -/

/-- `argvals` setter, dense: wrong number of points or wrong dimension → `ValueError`. -/
theorem reject_setArg_points {pts vpts p' : Shape} {g g' : Nat} {rows : List Nat} {st : Stand} (h : vpts ≠ p') :
    setArg (.dense pts g rows vpts st) (.dense p' g') = .error .valueError := by
  simp [setArg, h]

/-- `values` setter, dense: wrong number of points or wrong dimension → `ValueError`
(another number of observations is accepted). -/
theorem reject_setVal_points {pts vpts p' : Shape} {g : Nat} {rows rows' : List Nat} {st : Stand} (h : pts ≠ p') :
    setVal (.dense pts g rows vpts st) (.dense rows' p') = .error .valueError := by
  simp [setVal, h]

/-- Setters: an argument of the wrong class → `TypeError`. -/
theorem reject_setter_class (x : Grid) :
    setArg x .other = .error .typeError ∧ setVal x .other = .error .typeError ∧
      (∀ g, setStand g x .other = .error .typeError) ∧
      setArg x .bad = .error .typeError ∧ setVal x .bad = .error .typeError := by
  cases x <;> simp [setArg, setVal, setStand, ArgV.standShape]

/-- The typed dictionaries: assigning an item whose key or value has the wrong class — including a
value that is itself an `Argvals` / `Values` of the wrong kind — is a `TypeError` and changes nothing. -/
theorem reject_bad_item (g : Bool) (x : Grid) (onValues : Bool) (h : ¬ (onValues = true ∧ x.isDense = true)) :
    step g (.uni x) (.badItem onValues) = (.uni x, .err .typeError) := by
  simp only [step]
  split
  · rename_i hc
    simp only [Bool.and_eq_true] at hc
    exact absurd hc h
  · rfl

/-- `append`, `extend`, `insert` (and the constructor) reject a component whose number of
observations differs from that of a component already present: `ValueError`. -/
theorem reject_wrong_nobs (g : Bool) (cs : List Grid) (c d : Grid) (r : Recipe) (i : Int)
    (hb : build r = .ok c) (hd : d ∈ cs) (hn : d.nObs ≠ c.nObs) :
    (step g (.multi cs) (.append r)).2 = .err .valueError ∧
    (step g (.multi cs) (.insert i r)).2 = .err .valueError ∧
    (step g (.multi cs) (.extend [r])).2 = .err .valueError := by
  have hns : sameNobs (cs ++ [c]) = false := by
    rw [Bool.eq_false_iff]; intro hs
    exact hn ((sameNobs_iff _).1 hs d (List.mem_append_left _ hd) c (by simp))
  have hne : cs.isEmpty = false := by cases cs with
    | nil => simp at hd
    | cons _ _ => rfl
  refine ⟨?_, ?_, ?_⟩
  · simp [step, hb, hns, hne, settle]
  · simp [step, hb, hns, settle]
  · simp [step, buildAll, hb, hns, settle]

example : (stepSpec (.multi [.dense [3] 1 [0, 1] [3] (.dense [3])])
    (.insert 0 (.dense (.dense [2] 0) (.dense [5] [2])))).2 = .err .valueError := by decide

/-! ## Observers agree with a plain list / array model -/

/-- Dense: `n_points` and `n_dimension` (read from the sampling points) are the trailing shape
and rank of the plain values array. -/
theorem observers_dense {pts vpts : Shape} {g : Nat} {rows : List Nat} {st : Stand}
    (h : GridInv (.dense pts g rows vpts st)) :
    (Grid.dense pts g rows vpts st).nPoints = .dense vpts ∧
      (Grid.dense pts g rows vpts st).nDim = some vpts.length ∧
      (Grid.dense pts g rows vpts st).nObs = rows.length := by
  obtain ⟨hv, _⟩ := consistent_dense h
  subst hv
  exact ⟨rfl, rfl, rfl⟩

/-- Irregular: `n_points` (read from the sampling points) equals, as a dictionary, the shapes
of the plain per-observation value arrays. -/
theorem observers_irreg {a : D AObs} {v : D VObs} {st : Stand} (h : GridInv (.irreg a v st)) (k : Int) :
    (match (Grid.irreg a v st).nPoints with
      | .irreg o => get? o k
      | .dense _ => none) = (get? v k).map VObs.shape := by
  simp only [Grid.nPoints, get?_mapVals]
  exact consistent_irreg h k

/-- The list operations of a multivariate object do exactly what a plain Python list does
whenever they are accepted; in particular `n_functional` is the plain list's length. -/
theorem observers_list (g : Bool) (cs : List Grid) (op : Op) (hl : op.isListOp = true)
    (hok : (step g (.multi cs) op).2 = .ok) :
    ∃ l, plainStep cs op = some l ∧ (step g (.multi cs) op).1 = .multi l ∧
      State.nFunctional (step g (.multi cs) op).1 = some l.length := by
  cases op with
  | append r =>
    simp only [step] at hok ⊢
    cases hb : build r with
    | error e => simp [hb, settle] at hok
    | ok c =>
      simp only [hb] at hok ⊢
      refine ⟨cs ++ [c], by simp [plainStep, hb, exceptToOption], ?_⟩
      by_cases he : cs.isEmpty
      · have : cs = [] := List.isEmpty_iff.1 he
        subst this; simp [settle, State.nFunctional]
      · by_cases hs : sameNobs (cs ++ [c])
        · simp [he, hs, settle, State.nFunctional]
        · simp [he, hs, settle] at hok
  | extend rs =>
    simp only [step] at hok ⊢
    cases hb : buildAll rs with
    | error e => simp [hb, settle] at hok
    | ok ds =>
      simp only [hb] at hok ⊢
      refine ⟨cs ++ ds, by simp [plainStep, hb, exceptToOption], ?_⟩
      by_cases hs : sameNobs (cs ++ ds)
      · simp [hs, settle, State.nFunctional]
      · simp [hs, settle] at hok
  | insert i r =>
    simp only [step] at hok ⊢
    cases hb : build r with
    | error e => simp [hb, settle] at hok
    | ok c =>
      simp only [hb] at hok ⊢
      refine ⟨cs.insertIdx (insertPos cs.length i) c, by simp [plainStep, hb, exceptToOption], ?_⟩
      by_cases hs : sameNobs (cs ++ [c])
      · simp [hs, settle, State.nFunctional]
      · simp [hs, settle] at hok
  | remove r =>
    simp only [step] at hok ⊢
    cases hb : build r with
    | error e => simp [hb, settle] at hok
    | ok c =>
      simp only [hb] at hok ⊢
      cases hf : findSame c cs with
      | none => simp [hf, settle] at hok
      | some k =>
        exact ⟨cs.eraseIdx k, by simp [plainStep, hb, exceptToOption, hf], by simp [settle, State.nFunctional]⟩
  | pop i =>
    simp only [step] at hok ⊢
    cases hp : intPos cs.length (i.getD (-1)) with
    | none => simp [hp, settle] at hok
    | some k =>
      exact ⟨cs.eraseIdx k, by simp [plainStep, hp], by simp [settle, State.nFunctional]⟩
  | clear => exact ⟨[], rfl, rfl, rfl⟩
  | reverse => exact ⟨cs.reverse, rfl, rfl, rfl⟩
  | mkDense _ _ => simp [Op.isListOp] at hl
  | mkIrreg _ _ => simp [Op.isListOp] at hl
  | mkMulti _ => simp [Op.isListOp] at hl
  | setArg _ => simp [Op.isListOp] at hl
  | setVal _ => simp [Op.isListOp] at hl
  | setStand _ => simp [Op.isListOp] at hl
  | getitem _ => simp [Op.isListOp] at hl
  | concat _ => simp [Op.isListOp] at hl
  | badItem _ => simp [Op.isListOp] at hl

/-- `remove` deletes the *first* component equal to its argument and nothing else. -/
theorem remove_first {c : Grid} {cs : List Grid} {k : Nat} (h : findSame c cs = some k) :
    ∃ hk : k < cs.length, (cs[k]).same c = true ∧ ∀ j (hj : j < k), (cs[j]'(by omega)).same c = false :=
  findSame_spec h

/-- `remove` of an absent component is a `ValueError` (no component equals it). -/
theorem remove_absent (g : Bool) {c : Grid} {cs : List Grid} {r : Recipe} (hb : build r = .ok c)
    (h : ∀ x ∈ cs, x.same c = false) : (step g (.multi cs) (.remove r)).2 = .err .valueError := by
  have : findSame c cs = none := by
    cases hf : findSame c cs with
    | none => rfl
    | some k =>
      obtain ⟨hk, h1, _⟩ := findSame_spec hf
      have := h _ (List.getElem_mem hk)
      rw [h1] at this; cases this
  simp [step, hb, this, settle]

/-- `insert` never fails on its position: Python clamps it into `0..len`. -/
theorem insert_position_in_range (n : Nat) (i : Int) : insertPos n i ≤ n := insertPos_le n i

/-- `pop` removes a position that exists. -/
theorem pop_position_in_range {n : Nat} {i : Int} {p : Nat} (h : intPos n i = some p) : p < n := intPos_lt h

/-- Setting the sampling points always re-establishes "standardised points track the points",
whatever `argvals_stand` was before. -/
theorem setArg_restores_stand {x y : Grid} {a : ArgV} (hx : GridInvNoStand x) (h : setArg x a = .ok y) :
    GridInv y := setArg_inv hx h

/-! ## The computed standardised points track the sampling points pointwise -/

/-- `argvals_stand` as computed by the constructor / the `argvals` setter has exactly as many points as
the sampling points — also for a grid with a repeated point or an unsorted grid — … -/
theorem normalize_length {t s : List ℚ} (h : normalizeGrid t = some s) : s.length = t.length := by
  obtain ⟨lo, hi, _, _, _, _, rfl⟩ := normalizeGrid_spec h
  simp

/-- … is the affine image `(t − min) / (max − min)` point by point, in the same order, with values in
`[0, 1]`, the minimum going to 0 and the maximum to 1, … -/
theorem normalize_pointwise {t s : List ℚ} (h : normalizeGrid t = some s) :
    ∃ lo hi, lo ∈ t ∧ hi ∈ t ∧ lo < hi ∧
      (∀ (i : Nat) (hi' : i < t.length) (hs : i < s.length), s[i] = (t[i] - lo) / (hi - lo) ∧ 0 ≤ s[i] ∧ s[i] ≤ 1) ∧
      (0 : ℚ) ∈ s ∧ (1 : ℚ) ∈ s := by
  obtain ⟨lo, hi, hlo, hhi, hlt, hb, rfl⟩ := normalizeGrid_spec h
  have hpos : 0 < hi - lo := by linarith
  refine ⟨lo, hi, hlo, hhi, hlt, ?_, ?_, ?_⟩
  · intro i hi' hs
    have := hb _ (List.getElem_mem hi')
    have e : (t.map fun x => (x - lo) / (hi - lo))[i] = (t[i] - lo) / (hi - lo) := by simp
    rw [e]
    refine ⟨rfl, div_nonneg (by linarith) hpos.le, ?_⟩
    rw [div_le_one hpos]; linarith
  · exact List.mem_map.2 ⟨lo, hlo, by simp⟩
  · exact List.mem_map.2 ⟨hi, hhi, by rw [div_self (ne_of_gt hpos)]⟩

/-- … and keeps order and ties: `t_i ≤ t_j ↔ s_i ≤ s_j` (so an unsorted grid stays unsorted the same
way and a repeated point stays repeated — nothing is dropped or re-ordered). -/
theorem normalize_order {t s : List ℚ} (h : normalizeGrid t = some s) (i j : Nat)
    (hi : i < t.length) (hj : j < t.length) (hi' : i < s.length) (hj' : j < s.length) :
    t[i] ≤ t[j] ↔ s[i] ≤ s[j] := by
  obtain ⟨lo, hi2, _, _, hlt, _, rfl⟩ := normalizeGrid_spec h
  have hpos : 0 < hi2 - lo := by linarith
  simp only [List.getElem_map]
  rw [div_le_div_iff_of_pos_right hpos]
  constructor <;> intro h' <;> linarith

example : normalizeGrid [0, 1/2, 1/2, 1, 2] = some [0, 1/4, 1/4, 1/2, 1] := by
  simp [normalizeGrid, listMin, listMax, pickMin, pickMax]; norm_num

/-! ## Inherited list operations outside the property's list, and basis data -/

/-- `del mfd[i]`, `mfd + […]`, `mfd * k`, `mfd *= k`, `sort` keep a consistent multivariate
object consistent (`+` and `*` go through the constructor; the others only drop or repeat components). -/
theorem xop_preserves (cs ds : List Grid) (op : XOp) (h : StateInv (.multi cs))
    (hop : ∀ i r, op ≠ .setItem i r) (hop' : ∀ rs, op ≠ .iadd rs) (hr : stepX cs op = .ok ds) :
    StateInv (.multi ds) := by
  have hrep : ∀ k : Int, ∀ d ∈ repeatList cs k, d ∈ cs := by
    intro k d hd
    unfold repeatList at hd
    obtain ⟨l, hl, hdl⟩ := List.mem_flatten.1 hd
    rw [List.eq_of_mem_replicate hl] at hdl
    exact hdl
  cases op with
  | setItem i r => exact absurd rfl (hop i r)
  | iadd rs => exact absurd rfl (hop' rs)
  | delItem i =>
    simp only [stepX] at hr
    split at hr
    · cases hr
      exact ⟨fun d hd => h.1 d (mem_eraseIdx_sub hd), h.2.subset fun d hd => mem_eraseIdx_sub hd⟩
    · cases hr
  | add rs =>
    simp only [stepX] at hr
    cases hb : buildAll rs with
    | error e => rw [hb] at hr; cases hr
    | ok es =>
      rw [hb] at hr
      obtain ⟨rfl, hs⟩ := mkMulti_ok hr
      refine ⟨?_, hs⟩
      intro d hd
      rcases List.mem_append.1 hd with hd | hd
      · exact h.1 d hd
      · exact buildAll_inv hb d hd
  | mul k =>
    simp only [stepX] at hr
    obtain ⟨rfl, hs⟩ := mkMulti_ok hr
    exact ⟨fun d hd => h.1 d (hrep k d hd), hs⟩
  | imul k =>
    simp only [stepX] at hr
    cases hr
    exact ⟨fun d hd => h.1 d (hrep k d hd), h.2.subset (hrep k)⟩
  | sort =>
    simp only [stepX] at hr
    split at hr
    · cases hr; exact h
    · cases hr

/-- `mfd[i] = c` does not check the number of observations: outside the property's operation list,
recorded here so that nobody relies on it. -/
theorem xop_setitem_counterexample :
    ∃ cs ds i r, StateInv (.multi cs) ∧ stepX cs (.setItem i r) = .ok ds ∧ ¬ StateInv (.multi ds) := by
  refine ⟨[.dense [3] 1 [0, 1] [3] (.dense [3]), .dense [3] 1 [0, 1] [3] (.dense [3])],
    [.dense [2] 0 [5, 6, 7] [2] (.dense [2]), .dense [3] 1 [0, 1] [3] (.dense [3])],
    0, .dense (.dense [2] 0) (.dense [5, 6, 7] [2]), ?_, by decide, ?_⟩
  · refine ⟨?_, ?_⟩
    · intro c hc
      simp only [List.mem_cons, List.mem_nil_iff, or_false, or_self] at hc
      subst hc
      exact mkDense_inv (a := .dense [3] 1) (v := .dense [0, 1] [3]) rfl
    · intro c hc c' hc'
      simp only [List.mem_cons, List.mem_nil_iff, or_false, or_self] at hc hc'
      subst hc; subst hc'; rfl
  · intro h
    have := h.2 _ List.mem_cons_self _ (List.mem_cons_of_mem _ List.mem_cons_self)
    revert this; decide

/-- `mfd += […]` does not check the number of observations either (`mfd + […]` does). -/
theorem xop_iadd_counterexample :
    ∃ cs ds rs, StateInv (.multi cs) ∧ stepX cs (.iadd rs) = .ok ds ∧ ¬ StateInv (.multi ds) ∧
      stepX cs (.add rs) = .error .valueError := by
  refine ⟨[.dense [3] 1 [0, 1] [3] (.dense [3])],
    [.dense [3] 1 [0, 1] [3] (.dense [3]), .dense [2] 0 [5, 6, 7] [2] (.dense [2])],
    [.dense (.dense [2] 0) (.dense [5, 6, 7] [2])], ?_, by decide, ?_, by decide⟩
  · refine ⟨?_, ?_⟩
    · intro c hc
      simp only [List.mem_cons, List.mem_nil_iff, or_false] at hc
      subst hc
      exact mkDense_inv (a := .dense [3] 1) (v := .dense [0, 1] [3]) rfl
    · intro c hc c' hc'
      simp only [List.mem_cons, List.mem_nil_iff, or_false] at hc hc'
      subst hc; subst hc'; rfl
  · intro h
    have := h.2 _ List.mem_cons_self _ (List.mem_cons_of_mem _ List.mem_cons_self)
    revert this; decide

/-- Basis data (not among the property's object kinds): the constructor and the `coefficients`
attribute are unguarded — an object with 3 basis functions and 5 coefficient columns can be built … -/
theorem basis_unguarded : (mkBasis 3 [11] [0, 1] 5).consistent = false ∧
    ((mkBasis 3 [11] [0, 1] 3).setCoef [0, 1, 2, 3] 7).consistent = false := by decide

/-- … while selection keeps whatever consistency there was (the basis is shared, rows are selected). -/
theorem basis_getitem_preserves {b b' : BasisObj} {ix : Index} (h : b.getitem ix = .ok b') :
    b'.consistent = b.consistent ∧ b'.nFun = b.nFun ∧ b'.pts = b.pts := by
  unfold BasisObj.getitem at h
  cases hd : denseGet b.rows ix with
  | error e => rw [hd] at h; cases h
  | ok rows' => rw [hd] at h; cases h; exact ⟨rfl, rfl, rfl⟩

/-! ## The tree as coded (`argvals_stand` setter unguarded): partial result, refinement, counterexample -/

/-- What the property demands of the tree as coded. -/
def full_statement : Prop := ∀ ops : List Op, StateInv (run false State.empty ops)

/-- Everything except "standardised points track the points" holds over all histories of the
tree as coded (and of the repaired one). -/
theorem inv_step_partial (g : Bool) (s : State) (op : Op) (h : StateInvNoStand s) :
    StateInvNoStand (step g s op).1 :=
  step_preserves g GridInvNoStand (fun _ hx => hx.noStand)
    (fun _ _ _ hx hm => (setArg_inv hx hm).noStand)
    (fun _ _ _ hx hm => setVal_invNoStand hx hm)
    (fun _ _ _ hx hm => setStand_invNoStand hx hm) s op h

theorem reachable_partial (g : Bool) (ops : List Op) : StateInvNoStand (run g State.empty ops) := by
  suffices ∀ s, StateInvNoStand s → StateInvNoStand (run g s ops) from this _ trivial
  induction ops with
  | nil => intro s h; exact h
  | cons op ops ih => intro s h; exact ih _ (inv_step_partial g s op h)

/-- Refinement: the two state machines differ only in the `argvals_stand` setter … -/
theorem impl_eq_spec (s : State) (op : Op) (h : ∀ a, op ≠ .setStand a) : stepImpl s op = stepSpec s op := by
  cases op <;> first
    | rfl
    | (exfalso; exact h _ rfl)

/-- … and there only on arguments the guarded setter rejects. -/
theorem impl_eq_spec_setStand (s : State) (a : ArgV) (h : (stepSpec s (.setStand a)).2 = .ok) :
    stepImpl s (.setStand a) = stepSpec s (.setStand a) := by
  cases s with
  | empty => rfl
  | multi cs => rfl
  | uni x =>
    simp only [stepSpec, stepImpl, step] at h ⊢
    cases hst : a.standShape with
    | none => simp [setStand, hst]
    | some st =>
      simp only [setStand, hst, if_true] at h ⊢
      by_cases hk : st.sameKind x.trackedStand
      · by_cases hs : st.same x.trackedStand
        · simp [hk, hs]
        · simp [hk, hs, settle, Except.map] at h
      · simp [hk, settle, Except.map] at h

/-- Hence the full invariant holds over every history of the tree as coded in which no
`argvals_stand` assignment occurs that the guarded setter would reject. -/
theorem reachable_impl_partial (ops : List Op) (h : ∀ op ∈ ops, ∀ a, op ≠ .setStand a) :
    StateInv (run false State.empty ops) := by
  have : ∀ s, run false s ops = run true s ops := by
    induction ops with
    | nil => intro s; rfl
    | cons op ops ih =>
      intro s
      have h1 : step false s op = step true s op := impl_eq_spec s op (h op List.mem_cons_self)
      simp only [run, List.foldl_cons] at ih ⊢
      rw [h1]
      exact ih (fun o ho => h o (List.mem_cons_of_mem _ ho)) _
  rw [this]
  exact reachable ops

/-- The tree as coded violates the property: a dense object with 3 sampling points accepts
standardised points with 4 points and is then inconsistent. -/
theorem counterexample : ¬ full_statement := by
  intro h
  have := (h [.mkDense (.dense [3] 1) (.dense [0, 1, 2] [3]), .setStand (.dense [4] 0)]).2.1
  revert this
  decide


/-! ## The setter bodies read from the source are the setters of the model -/

section SourceTie
open FDA.PySetter FDA.Generated.Setters

/-- Executing, statement by statement, the bodies the translator read from the source (`Generated/Setters.lean`,
re-generated on every run) gives exactly the model's setters — same new object, same error class, and no assignment
before a failing check: the `argvals` and `values` setters of dense objects, … -/
theorem setter_src_eq_model_dense (pts : Shape) (g : Nat) (rows : List Nat) (vpts : Shape) (st : Stand) (a : ArgV) (v : ValV) :
    outcome (.dense pts g rows vpts st) (.arg a) denseArgvalsSetter = some (setArg (.dense pts g rows vpts st) a) ∧
    outcome (.dense pts g rows vpts st) (.val v) denseValuesSetter = some (setVal (.dense pts g rows vpts st) v) := by
  constructor
  · cases a with
    | dense p g' =>
      by_cases h : vpts = p <;>
        simp [outcome, exec, execStmt, denseArgvalsSetter, Offered.isClass, setArg, Grid.withStand, Grid.trackedStand, h]
    | irreg o => simp [outcome, exec, execStmt, denseArgvalsSetter, Offered.isClass, setArg]
    | other => simp [outcome, exec, execStmt, denseArgvalsSetter, Offered.isClass, setArg]
    | bad => simp [outcome, exec, execStmt, denseArgvalsSetter, Offered.isClass, setArg]
  · cases v with
    | dense r p =>
      by_cases h : pts = p <;>
        simp [outcome, exec, execStmt, denseValuesSetter, Offered.isClass, setVal, h]
    | irreg o => simp [outcome, exec, execStmt, denseValuesSetter, Offered.isClass, setVal]
    | other => simp [outcome, exec, execStmt, denseValuesSetter, Offered.isClass, setVal]
    | bad => simp [outcome, exec, execStmt, denseValuesSetter, Offered.isClass, setVal]

/-- … of irregular objects, … -/
theorem setter_src_eq_model_irreg (ao : D AObs) (vo : D VObs) (st : Stand) (a : ArgV) (v : ValV) :
    outcome (.irreg ao vo st) (.arg a) irregArgvalsSetter = some (setArg (.irreg ao vo st) a) ∧
    outcome (.irreg ao vo st) (.val v) irregValuesSetter = some (setVal (.irreg ao vo st) v) := by
  constructor
  · cases a with
    | irreg o =>
      by_cases h : irregCompat (ofList o) vo = true <;>
        simp [outcome, exec, execStmt, irregArgvalsSetter, Offered.isClass, setArg, Grid.withStand, Grid.trackedStand, h]
    | dense p g' => simp [outcome, exec, execStmt, irregArgvalsSetter, Offered.isClass, setArg]
    | other => simp [outcome, exec, execStmt, irregArgvalsSetter, Offered.isClass, setArg]
    | bad => simp [outcome, exec, execStmt, irregArgvalsSetter, Offered.isClass, setArg]
  · cases v with
    | irreg o =>
      by_cases h : irregCompat ao (ofList o) = true <;>
        simp [outcome, exec, execStmt, irregValuesSetter, Offered.isClass, setVal, h]
    | dense r p => simp [outcome, exec, execStmt, irregValuesSetter, Offered.isClass, setVal]
    | other => simp [outcome, exec, execStmt, irregValuesSetter, Offered.isClass, setVal]
    | bad => simp [outcome, exec, execStmt, irregValuesSetter, Offered.isClass, setVal]

/-- … the `argvals_stand` setter (class of `Argvals`, class of the object's own sampling points, numbers of points,
then the assignment), and `compatible_with` compares the numbers of points and raises `ValueError`. -/
theorem setter_src_eq_model_stand (x : Grid) (a : ArgV) :
    outcome x (.arg a) standSetter = some (setStand true x a) ∧
    argvalsCompatibleWith = .raiseValueErrorIfPointsDiffer ∧ valuesCompatibleWith = .raiseValueErrorIfPointsDiffer := by
  refine ⟨?_, rfl, rfl⟩
  cases hs : a.standShape with
  | none =>
    cases a <;> simp [ArgV.standShape] at hs <;>
      simp [outcome, exec, execStmt, standSetter, Offered.isClass, setStand, ArgV.standShape]
  | some st =>
    have hc : (Offered.arg a).isClass .argvals = true := by
      cases a <;> simp [ArgV.standShape] at hs <;> rfl
    by_cases hk : st.sameKind x.trackedStand = true
    · by_cases hp : st.same x.trackedStand = true
      · simp [outcome, exec, execStmt, standSetter, hc, hs, hk, hp, setStand]
      · simp [outcome, exec, execStmt, standSetter, hc, hs, hk, hp, setStand]
    · simp [outcome, exec, execStmt, standSetter, hc, hs, hk, setStand]

end SourceTie

end C11
