/-
C09 — mean, covariance and noise variance are the textbook sample estimators.
Only property theorems and non-vacuity examples live here; helper lemmas are in
`FDAProofs/Lemmas/Stats.lean`.  The definitions are those of
`FDAModel/Stats.lean`, which `Drivers/C09.lean` executes.
-/
import FDAProofs.Lemmas.Stats
import FDAModel.CovPath
import FDAModel.Generated.StatsFormulas

namespace C09
open FDA Finset

/-! ### mean -/

/-- The unsmoothed mean of dense data is the pointwise average: `N · mean_j = Σ_i X_ij`
(every number of curves `N ≥ 1`, every grid point). -/
theorem mean_is_average (N : ℕ) (X : ℕ → ℕ → ℚ) (hN : 0 < N) (j : ℕ) :
    colMean N X j = (∑ i ∈ range N, X i j) / N ∧ (N : ℚ) * colMean N X j = ∑ i ∈ range N, X i j :=
  ⟨rfl, colMean_mul N X hN j⟩

/-- The mean commutes with affine maps of the data: `mean(a X + c) = a mean(X) + c`
(pointwise offset `c j`). -/
theorem mean_affine (N : ℕ) (X : ℕ → ℕ → ℚ) (a : ℚ) (c : ℕ → ℚ) (hN : 0 < N) (j : ℕ) :
    colMean N (fun i j => a * X i j + c j) j = a * colMean N X j + c j :=
  FDA.mean_affine N X a c hN j

/-- The mean does not depend on the order of the observations. -/
theorem mean_perm_invariant (N : ℕ) (X : ℕ → ℕ → ℚ) (σ : ℕ → ℕ)
    (hσ : Set.BijOn σ (range N : Set ℕ) (range N : Set ℕ)) (j : ℕ) :
    colMean N (fun i => X (σ i)) j = colMean N X j :=
  colMean_perm N X σ hσ j

/-! ### covariance -/

/-- The unsmoothed covariance is the unbiased sample covariance:
`Xcᵀ Xc / (N−1) = (Σ_i x_i x_iᵀ − N m mᵀ) / (N−1)`. -/
theorem cov_is_unbiased_sample_cov (N : ℕ) (X : ℕ → ℕ → ℚ) (hN : 2 ≤ N) (a b : ℕ) :
    cov N 1 X a b =
      (∑ i ∈ range N, X i a * X i b - N * colMean N X a * colMean N X b) / ((N : ℚ) - 1) := by
  unfold cov covOf
  rw [sum_center_mul N X (by omega) a b]
  norm_num

/-- Symmetric. -/
theorem cov_symm (N ddof : ℕ) (X : ℕ → ℕ → ℚ) (a b : ℕ) : cov N ddof X a b = cov N ddof X b a := by
  unfold cov covOf
  congr 1
  apply Finset.sum_congr rfl; intro i _; ring

/-- The quadratic form of the covariance over any `m` grid points is a sum of squares … -/
theorem cov_quadratic_form (N ddof m : ℕ) (X : ℕ → ℕ → ℚ) (v : ℕ → ℚ) :
    ∑ a ∈ range m, ∑ b ∈ range m, v a * v b * cov N ddof X a b =
      (∑ i ∈ range N, (∑ a ∈ range m, v a * center N X i a) ^ 2) / ((N : ℚ) - ddof) :=
  FDA.cov_quadratic_form N ddof m X v

/-- … hence the covariance is positive semi-definite (`ddof < N`, in particular the
sample covariance for `N ≥ 2`). -/
theorem cov_psd (N ddof m : ℕ) (X : ℕ → ℕ → ℚ) (v : ℕ → ℚ) (h : ddof < N) :
    0 ≤ ∑ a ∈ range m, ∑ b ∈ range m, v a * v b * cov N ddof X a b := by
  rw [cov_quadratic_form]
  apply div_nonneg
  · exact Finset.sum_nonneg fun i _ => sq_nonneg _
  · have : (ddof : ℚ) < N := by exact_mod_cast h
    linarith

/-- Independent of the order of the observations. -/
theorem cov_perm_invariant (N ddof : ℕ) (X : ℕ → ℕ → ℚ) (σ : ℕ → ℕ)
    (hσ : Set.BijOn σ (range N : Set ℕ) (range N : Set ℕ)) (a b : ℕ) :
    cov N ddof (fun i => X (σ i)) a b = cov N ddof X a b := by
  unfold cov covOf center
  simp only [colMean_perm N X σ hσ]
  congr 1
  exact sum_perm N (fun i => (X i a - colMean N X a) * (X i b - colMean N X b)) σ hσ

/-- Offsets (any mean function `c`) drop out, a factor enters squared. -/
theorem cov_affine (N ddof : ℕ) (X : ℕ → ℕ → ℚ) (s : ℚ) (c : ℕ → ℚ) (hN : 0 < N) (a b : ℕ) :
    cov N ddof (fun i j => s * X i j + c j) a b = s ^ 2 * cov N ddof X a b :=
  FDA.cov_affine N ddof X s c hN a b

/-- The diagonal is the pointwise variance: population variance = `cov` with `ddof = 0`,
and both are non-negative. -/
theorem cov_diag (N : ℕ) (X : ℕ → ℕ → ℚ) (j : ℕ) :
    popVar N X j = cov N 0 X j j ∧ (∀ ddof, ddof < N → 0 ≤ cov N ddof X j j) :=
  FDA.cov_diag N X j

/-! ### symmetrisation after smoothing -/

/-- `(M + Mᵀ)/2` is symmetric for *any* smoother output `M`. -/
theorem symmetrise_symm (M : ℕ → ℕ → ℚ) (a b : ℕ) : symmetrise M a b = symmetrise M b a := by
  unfold symmetrise; ring

/-- Symmetrisation keeps the diagonal (the one fed to the noise estimate) and is the
identity on symmetric matrices; in particular without smoothing the returned
covariance *is* the sample covariance. -/
theorem symmetrise_fixed (M : ℕ → ℕ → ℚ) :
    (∀ a, symmetrise M a a = M a a) ∧ ((∀ a b, M a b = M b a) → ∀ a b, symmetrise M a b = M a b) := by
  constructor
  · intro a; unfold symmetrise; ring
  · intro h a b; unfold symmetrise; rw [h b a]; ring

theorem covImpl_eq_cov (N : ℕ) (X : ℕ → ℕ → ℚ) (a b : ℕ) : covImpl N X a b = cov N 1 X a b :=
  (symmetrise_fixed _).2 (cov_symm N 1 X) a b

/-- The smoothed covariance lives on `points × points`: the returned table has `p` rows
of `p` entries (`p` = number of requested points), whatever the smoother returned. -/
theorem smoothed_shape (p : ℕ) (M : ℕ → ℕ → ℚ) :
    (toMat p p (symmetrise M)).length = p ∧ ∀ r ∈ toMat p p (symmetrise M), r.length = p := by
  unfold toMat
  constructor
  · simp
  · intro r hr
    simp only [List.mem_map, List.mem_range] at hr
    obtain ⟨i, _, rfl⟩ := hr
    simp

/-! ### the table of difference sequences (generated from the source on every run) -/

/-- For every admissible order `1..10` the table generated from
`FDApy/misc/utils.py` has an entry of length `order + 1`, whose weights sum to
zero up to `10⁻⁴` and whose squares sum to one up to `1.1·10⁻⁴` (measured on the
source: the worst entries are exactly `10⁻⁴` and `1.0023·10⁻⁴`). -/
theorem diffSeq_table (q : ℕ) (h1 : 1 ≤ q) (h10 : q ≤ 10) :
    ∃ d, Generated.diffSeq q = some d ∧ d.length = q + 1 ∧
      |∑ k ∈ range (q + 1), ofList d k| ≤ 1 / 10000 ∧
      |∑ k ∈ range (q + 1), ofList d k ^ 2 - 1| ≤ 11 / 100000 := by
  interval_cases q <;>
    exact ⟨_, rfl, by decide, by norm_num [ofList, rd, Finset.sum_range_succ, abs_le],
      by norm_num [ofList, rd, Finset.sum_range_succ, abs_le]⟩

/-! ### difference-based noise variance -/

/-- Non-negative (every order, every weight sequence, every curve and length). -/
theorem noise_nonneg (q : ℕ) (d : ℕ → ℚ) (N : ℕ) (L : ℕ → ℕ) (X : ℕ → ℕ → ℚ) :
    (∀ i, 0 ≤ noiseVar1 q d (L i) (X i)) ∧ 0 ≤ noiseVar q d N L X := by
  have h1 : ∀ i, 0 ≤ noiseVar1 q d (L i) (X i) := by
    intro i
    unfold noiseVar1
    split
    · exact le_refl _
    · exact div_nonneg (Finset.sum_nonneg fun s _ => sq_nonneg _) (Nat.cast_nonneg _)
  exact ⟨h1, div_nonneg (Finset.sum_nonneg fun i _ => h1 i) (Nat.cast_nonneg _)⟩

/-- Scales with the square of a multiplicative factor. -/
theorem noise_scale (q : ℕ) (d : ℕ → ℚ) (N : ℕ) (L : ℕ → ℕ) (X : ℕ → ℕ → ℚ) (a : ℚ) :
    noiseVar q d N L (fun i k => a * X i k) = a ^ 2 * noiseVar q d N L X := by
  have h1 : ∀ i, noiseVar1 q d (L i) (fun k => a * X i k) = a ^ 2 * noiseVar1 q d (L i) (X i) := by
    intro i
    unfold noiseVar1
    split
    · simp
    · simp_rw [window_smul, mul_pow]
      rw [← Finset.mul_sum, mul_div_assoc]
  unfold noiseVar
  simp_rw [h1]
  rw [← Finset.mul_sum, mul_div_assoc]

/-- Exact effect of adding a constant `c` to a curve: with `S = Σ d` and `W̄` the mean
window, the estimate moves by `2 c S W̄ + c² S²` — it is unchanged iff that vanishes,
in particular for weights summing to zero. -/
theorem noise_shift_exact (q L : ℕ) (d x : ℕ → ℚ) (c : ℚ) (h : q + 1 ≤ L) :
    noiseVar1 q d L (fun k => x k + c) =
      noiseVar1 q d L x + 2 * c * (∑ k ∈ range (q + 1), d k) * windowMean q d L x
        + c ^ 2 * (∑ k ∈ range (q + 1), d k) ^ 2 :=
  noiseVar1_shift_exact d x c h

/-- "Numerically unchanged when a constant is added": for weights with `|Σ d| ≤ s` and
`r² = noiseVar1 x`, `r ≥ 0`, the estimate of `x + c` differs from that of `x` by at
most `|c| s (2 r + |c| s)` (all lengths; short curves give 0 on both sides). -/
theorem noise_shift_bound (q L : ℕ) (d x : ℕ → ℚ) (c s r : ℚ)
    (hs : |∑ k ∈ range (q + 1), d k| ≤ s) (hr : 0 ≤ r) (hr2 : r ^ 2 = noiseVar1 q d L x) :
    |noiseVar1 q d L (fun k => x k + c) - noiseVar1 q d L x| ≤ |c| * s * (2 * r + |c| * s) := by
  have hs0 : 0 ≤ s := le_trans (abs_nonneg _) hs
  by_cases h : q + 1 ≤ L
  · rw [noiseVar1_shift_exact d x c h]
    set S := ∑ k ∈ range (q + 1), d k
    set W := windowMean q d L x
    have hW : |W| ≤ r := by
      have := windowMean_sq_le d x h
      rw [← hr2] at this
      exact abs_le_of_sq_le_sq' this hr |> abs_le.mpr
    have e : noiseVar1 q d L x + 2 * c * S * W + c ^ 2 * S ^ 2 - noiseVar1 q d L x
        = 2 * c * S * W + c ^ 2 * S ^ 2 := by ring
    rw [e]
    calc |2 * c * S * W + c ^ 2 * S ^ 2| ≤ |2 * c * S * W| + |c ^ 2 * S ^ 2| := abs_add_le _ _
      _ = 2 * |c| * |S| * |W| + |c| ^ 2 * |S| ^ 2 := by
          rw [abs_mul, abs_mul, abs_mul, abs_mul, abs_pow, abs_pow]; norm_num
      _ ≤ 2 * |c| * s * r + |c| ^ 2 * s ^ 2 := by
          have hc := abs_nonneg c
          have hS := abs_nonneg S
          have hWn := abs_nonneg W
          have h1 : |S| * |W| ≤ s * r := mul_le_mul hs hW hWn hs0
          have h2 : |S| ^ 2 ≤ s ^ 2 := pow_le_pow_left₀ hS hs 2
          nlinarith [mul_le_mul_of_nonneg_left h1 hc, mul_le_mul_of_nonneg_left h2 (sq_nonneg |c|)]
      _ = |c| * s * (2 * r + |c| * s) := by ring
  · have h' : L < q + 1 := by omega
    unfold noiseVar1
    rw [if_pos h', if_pos h']
    simp only [sub_self, abs_zero]
    have := abs_nonneg c
    positivity

/-- The same with the weights of the source: for every order `1..10` the table's
weights satisfy the hypothesis with `s = 10⁻⁴`. -/
theorem noise_shift_table (q L : ℕ) (x : ℕ → ℚ) (c r : ℚ) (h1 : 1 ≤ q) (h10 : q ≤ 10)
    (hr : 0 ≤ r) (hr2 : r ^ 2 = noiseVar1 q (dseq q) L x) :
    |noiseVar1 q (dseq q) L (fun k => x k + c) - noiseVar1 q (dseq q) L x|
      ≤ |c| * (1 / 10000) * (2 * r + |c| * (1 / 10000)) := by
  obtain ⟨d, hd, -, hsum, -⟩ := diffSeq_table q h1 h10
  have e : dseq q = ofList d := by unfold dseq; rw [hd]; rfl
  rw [e] at hr2 ⊢
  exact noise_shift_bound q L (ofList d) x c _ r hsum hr hr2

/-- The estimate of a data set is the average of the per-curve estimates: the
estimate of the single-curve data set `{x_i}` is `noiseVar1 x_i`, and the whole is
their mean; it does not depend on the order of the curves. -/
theorem noise_is_mean_of_curves (q : ℕ) (d : ℕ → ℚ) (N : ℕ) (L : ℕ → ℕ) (X : ℕ → ℕ → ℚ) :
    (∀ i, noiseVar q d 1 (fun _ => L i) (fun _ => X i) = noiseVar1 q d (L i) (X i)) ∧
    noiseVar q d N L X = (∑ i ∈ range N, noiseVar q d 1 (fun _ => L i) (fun _ => X i)) / N ∧
    (∀ σ : ℕ → ℕ, Set.BijOn σ (range N : Set ℕ) (range N : Set ℕ) →
      noiseVar q d N (fun i => L (σ i)) (fun i => X (σ i)) = noiseVar q d N L X) := by
  have h1 : ∀ i, noiseVar q d 1 (fun _ => L i) (fun _ => X i) = noiseVar1 q d (L i) (X i) := by
    intro i; simp [noiseVar]
  refine ⟨h1, ?_, ?_⟩
  · simp_rw [h1]; rfl
  · intro σ hσ
    unfold noiseVar
    congr 1
    exact sum_perm N (fun i => noiseVar1 q d (L i) (X i)) σ hσ

/-- Zero for curves too short for the difference order (`len < order + 1`). -/
theorem noise_short_curve (q : ℕ) (d : ℕ → ℚ) (N : ℕ) (L : ℕ → ℕ) (X : ℕ → ℕ → ℚ) :
    (∀ i, L i < q + 1 → noiseVar1 q d (L i) (X i) = 0) ∧
    ((∀ i ∈ range N, L i < q + 1) → noiseVar q d N L X = 0) := by
  have h1 : ∀ i, L i < q + 1 → noiseVar1 q d (L i) (X i) = 0 := by
    intro i h; unfold noiseVar1; rw [if_pos h]
  refine ⟨h1, fun h => ?_⟩
  unfold noiseVar
  rw [Finset.sum_eq_zero (fun i hi => h1 i (h i hi)), zero_div]

/-- The order guard: the per-curve estimator raises `ValueError` exactly for orders
outside `1..10`; inside, it never fails (the table has the entry) and returns the
estimate computed with the table's weights. -/
theorem noise_order_guard (order : ℤ) (L : ℕ) (x : ℕ → ℚ) :
    (noiseVar1E order L x = .error "ValueError" ↔ (order < 1 ∨ order > 10)) ∧
    (1 ≤ order → order ≤ 10 →
      noiseVar1E order L x = .ok (noiseVar1 order.toNat (dseq order.toNat) L x)) := by
  have hin : 1 ≤ order → order ≤ 10 →
      noiseVar1E order L x = .ok (noiseVar1 order.toNat (dseq order.toNat) L x) := by
    intro h1 h10
    have hq1 : 1 ≤ order.toNat := by omega
    have hq10 : order.toNat ≤ 10 := by omega
    obtain ⟨d, hd, -, -, -⟩ := diffSeq_table order.toNat hq1 hq10
    unfold noiseVar1E
    rw [if_neg (by omega)]
    by_cases hL : L < order.toNat + 1
    · rw [if_pos hL]; unfold noiseVar1; rw [if_pos hL]
    · rw [if_neg hL, hd]
      have e : dseq order.toNat = ofList d := by unfold dseq; rw [hd]; rfl
      rw [e]
  refine ⟨⟨fun h => ?_, fun h => ?_⟩, hin⟩
  · by_contra hcon
    have h1 : 1 ≤ order := by omega
    have h10 : order ≤ 10 := by omega
    rw [hin h1 h10] at h
    exact absurd h (by simp)
  · unfold noiseVar1E; rw [if_pos h]

/-- The data-set level estimator with its guards (what `Drivers/C09.lean` runs for a
`noise` request): for orders `1..10` it returns the mean of the per-curve estimates
computed with the table's weights, for any other order (and at least one curve) it
raises `ValueError`. -/
theorem noise_dataset_guard (order : ℤ) (N : ℕ) (L : ℕ → ℕ) (X : ℕ → ℕ → ℚ) :
    (1 ≤ order → order ≤ 10 →
      noiseVarE order N L X = .ok (noiseVar order.toNat (dseq order.toNat) N L X)) ∧
    (0 < N → (order < 1 ∨ order > 10) → noiseVarE order N L X = .error "ValueError") := by
  constructor
  · intro h1 h10
    unfold noiseVarE
    have : (fun i => noiseVar1E order (L i) (X i)) =
        fun i => (pure (noiseVar1 order.toNat (dseq order.toNat) (L i) (X i)) : Except String ℚ) := by
      funext i
      exact (noise_order_guard order (L i) (X i)).2 h1 h10
    rw [this, List.mapM_pure]
    show Except.ok _ = _
    rw [list_sum_map_range]
    rfl
  · intro hN h
    unfold noiseVarE
    obtain ⟨n, rfl⟩ : ∃ n, N = n + 1 := ⟨N - 1, by omega⟩
    have e : noiseVar1E order (L 0) (X 0) = .error "ValueError" :=
      (noise_order_guard order _ _).1.2 h
    rw [List.range_succ_eq_map, List.mapM_cons, e]
    rfl

/-- Calibration: an isolated spike of height `σ` (at a position whose windows all lie
inside the curve) is estimated as `σ² Σ_k d_k² / (L − q)` … -/
theorem noise_impulse (q L p : ℕ) (d : ℕ → ℚ) (σ : ℚ) (hp : q ≤ p) (hL : p + q + 1 ≤ L) :
    noiseVar1 q d L (fun k => if k = p then σ else 0) =
      σ ^ 2 * (∑ k ∈ range (q + 1), d k ^ 2) / ((L - q : ℕ) : ℚ) := by
  rw [noiseVar1_of_le d _ (by omega)]
  congr 1
  -- window s = d (p - s) σ for p - q ≤ s ≤ p, else 0
  have hw : ∀ s, window q d (fun k => if k = p then σ else 0) s =
      if s ≤ p ∧ p ≤ s + q then d (p - s) * σ else 0 := by
    intro s
    unfold window
    by_cases h : s ≤ p ∧ p ≤ s + q
    · rw [if_pos h, Finset.sum_eq_single (p - s)]
      · beta_reduce; rw [if_pos (by omega)]
      · intro k _ hk; beta_reduce; rw [if_neg (by omega)]; ring
      · intro hk; exact absurd (mem_range.mpr (by omega)) hk
    · rw [if_neg h]
      apply Finset.sum_eq_zero
      intro k hk
      rw [mem_range] at hk
      beta_reduce
      rw [if_neg (by omega)]; ring
  simp_rw [hw]
  -- re-index s = p - k
  rw [Finset.mul_sum]
  symm
  apply Finset.sum_bij_ne_zero (fun k _ _ => p - k)
  · intro k hk _; rw [mem_range] at hk ⊢; omega
  · intro k₁ h₁ _ k₂ h₂ _ e; rw [mem_range] at h₁ h₂; omega
  · intro s hs hne
    rw [mem_range] at hs
    by_cases h : s ≤ p ∧ p ≤ s + q
    · refine ⟨p - s, mem_range.mpr (by omega), ?_, by omega⟩
      rw [if_pos h] at hne
      intro h0
      apply hne
      have : (d (p - s) * σ) ^ 2 = σ ^ 2 * d (p - s) ^ 2 := by ring
      rw [this, h0]
    · rw [if_neg h] at hne; exact absurd rfl hne
  · intro k hk _
    rw [mem_range] at hk
    rw [if_pos (by omega)]
    have : p - (p - k) = k := by omega
    rw [this]; ring

/-- … so with the table's weights it is within `1.1·10⁻⁴` (relative) of the textbook
value `σ²/(L − q)`: the estimator is calibrated (`Σ d² ≈ 1`). -/
theorem noise_impulse_table (q L p : ℕ) (σ : ℚ) (h1 : 1 ≤ q) (h10 : q ≤ 10) (hp : q ≤ p)
    (hL : p + q + 1 ≤ L) :
    |noiseVar1 q (dseq q) L (fun k => if k = p then σ else 0) * ((L - q : ℕ) : ℚ) - σ ^ 2|
      ≤ 11 / 100000 * σ ^ 2 := by
  obtain ⟨d, hd, -, -, hsq⟩ := diffSeq_table q h1 h10
  have e : dseq q = ofList d := by unfold dseq; rw [hd]; rfl
  rw [e, noise_impulse q L p (ofList d) σ hp hL]
  have hn : (((L - q : ℕ)) : ℚ) ≠ 0 := by
    have : 0 < L - q := by omega
    exact_mod_cast this.ne'
  rw [div_mul_cancel₀ _ hn]
  have : σ ^ 2 * ∑ k ∈ range (q + 1), ofList d k ^ 2 - σ ^ 2 =
      σ ^ 2 * (∑ k ∈ range (q + 1), ofList d k ^ 2 - 1) := by ring
  rw [this, abs_mul, abs_of_nonneg (sq_nonneg σ), mul_comm]
  exact mul_le_mul_of_nonneg_right hsq (sq_nonneg σ)

/-- The driver evaluates the covariance on the *tabulated* centred data; that is the
covariance of the model (`covOf` only reads rows `< N`). -/
theorem cov_tabulated (N m ddof : ℕ) (X : ℕ → ℕ → ℚ) (a b : ℕ) (ha : a < m) (hb : b < m) :
    covOf N ddof (rd2 (tabA2 N m (center N X))) a b = cov N ddof X a b := by
  unfold cov covOf
  congr 1
  apply Finset.sum_congr rfl
  intro i hi
  rw [mem_range] at hi
  rw [rd2_tabA2 _ hi ha, rd2_tabA2 _ hi hb]

/-! ### noise variance from the covariance diagonal -/

/-- The covariance-diagonal estimate is clipped at zero, whatever the smoother and
the diagonal are. -/
theorem cov_diag_noise_clipped (p : ℕ) (pts varHat sm : ℕ → ℚ) (rng : ℚ) :
    0 ≤ noiseFromCov p pts varHat sm rng := by
  unfold noiseFromCov
  exact le_max_right _ _

/-! ### irregular data: the raw covariance from co-observed pairs -/

/-- The convention of the irregular estimator: with complete data (every curve observed at every
union-grid point) the pooled raw covariance is `Σ_i d_ia d_ib / n` … -/
theorem covIrr_complete (N : ℕ) (obs : ℕ → ℕ → Bool) (D : ℕ → ℕ → ℚ) (hN : 0 < N)
    (hall : ∀ i < N, ∀ a, obs i a = true) (a b : ℕ) :
    rawCovIrr N obs D a b = covOf N 0 D a b := by
  have hf : (range N).filter (fun i => obs i a && obs i b) = range N := by
    apply Finset.filter_true_of_mem
    intro i hi
    rw [mem_range] at hi
    simp [hall i hi]
  unfold rawCovIrr coCount coSum covOf
  rw [hf, card_range, if_neg hN.ne']
  simp

/-- … i.e. on centred complete data it is the *population* covariance, `(n−1)/n` times the
unbiased sample covariance that `DenseFunctionalData.covariance` returns. -/
theorem covIrr_complete_centered (N : ℕ) (obs : ℕ → ℕ → Bool) (X : ℕ → ℕ → ℚ) (hN : 2 ≤ N)
    (hall : ∀ i < N, ∀ a, obs i a = true) (a b : ℕ) :
    rawCovIrr N obs (center N X) a b = cov N 0 X a b ∧
    rawCovIrr N obs (center N X) a b = ((N : ℚ) - 1) / N * cov N 1 X a b := by
  have h := covIrr_complete N obs (center N X) (by omega) hall a b
  refine ⟨h, ?_⟩
  rw [h]
  unfold cov covOf
  have h1 : ((N : ℚ) - 1) ≠ 0 := by
    have : (2 : ℚ) ≤ N := by exact_mod_cast hN
    linarith
  have h2 : (N : ℚ) ≠ 0 := by
    have : (2 : ℚ) ≤ N := by exact_mod_cast hN
    linarith
  push_cast
  field_simp
  ring

/-- Pairs of points that no curve observes together get the defined value `0` (the guarded
division never divides by a zero count). -/
theorem covIrr_never_coobserved (N : ℕ) (obs : ℕ → ℕ → Bool) (D : ℕ → ℕ → ℚ) (a b : ℕ)
    (h : ∀ i < N, ¬ (obs i a = true ∧ obs i b = true)) : rawCovIrr N obs D a b = 0 := by
  have hf : (range N).filter (fun i => obs i a && obs i b) = ∅ := by
    apply Finset.filter_false_of_mem
    intro i hi
    rw [mem_range] at hi
    have := h i hi
    simpa using this
  unfold rawCovIrr coCount
  rw [hf]; simp

/-- The raw irregular covariance is symmetric, for any pattern of missing samples. -/
theorem covIrr_symm (N : ℕ) (obs : ℕ → ℕ → Bool) (D : ℕ → ℕ → ℚ) (a b : ℕ) :
    rawCovIrr N obs D a b = rawCovIrr N obs D b a := by
  have hf : (range N).filter (fun i => obs i a && obs i b) = (range N).filter (fun i => obs i b && obs i a) := by
    apply Finset.filter_congr; intro i _; rw [Bool.and_comm]
  unfold rawCovIrr coCount coSum
  rw [hf]
  congr 2
  apply Finset.sum_congr rfl; intro i _; ring

/-- Its diagonal is non-negative. -/
theorem covIrr_diag_nonneg (N : ℕ) (obs : ℕ → ℕ → Bool) (D : ℕ → ℕ → ℚ) (a : ℕ) :
    0 ≤ rawCovIrr N obs D a a := by
  unfold rawCovIrr coSum
  split
  · exact le_refl _
  · exact div_nonneg (Finset.sum_nonneg fun i _ => mul_self_nonneg _) (Nat.cast_nonneg _)

/-- It does not depend on the order of the curves (values and observation masks permuted together). -/
theorem covIrr_perm_invariant (N : ℕ) (obs : ℕ → ℕ → Bool) (D : ℕ → ℕ → ℚ) (σ : ℕ → ℕ)
    (hσ : Set.BijOn σ (range N : Set ℕ) (range N : Set ℕ)) (a b : ℕ) :
    rawCovIrr N (fun i => obs (σ i)) (fun i => D (σ i)) a b = rawCovIrr N obs D a b := by
  have key : ∀ f : ℕ → ℚ, ∑ i ∈ (range N).filter (fun i => obs (σ i) a && obs (σ i) b), f (σ i) =
      ∑ i ∈ (range N).filter (fun i => obs i a && obs i b), f i := by
    intro f
    rw [Finset.sum_filter, Finset.sum_filter]
    exact sum_perm N (fun i => if (obs i a && obs i b) = true then f i else 0) σ hσ
  have hc : coCount N (fun i => obs (σ i)) a b = coCount N obs a b := by
    have := key (fun _ => 1)
    simp only [Finset.sum_const, nsmul_eq_mul, mul_one] at this
    unfold coCount
    exact_mod_cast this
  unfold rawCovIrr coSum
  rw [hc, key (fun i => D i a * D i b)]

/-! ### the procedure around the covariance smoothers (the smoother is a parameter) -/

/-- The training set handed to the local-polynomial smoother is exactly the off-diagonal entries of the
raw covariance, each with its own pair of indices (the diagonal, contaminated by the measurement
error, is removed; nothing else is). -/
theorem longFormat_mem (m : ℕ) (M : ℕ → ℕ → ℚ) (r : ℕ × ℕ × ℚ) :
    r ∈ longFormat m (removeDiag M) ↔ r.1 < m ∧ r.2.1 < m ∧ r.1 ≠ r.2.1 ∧ r.2.2 = M r.1 r.2.1 := by
  obtain ⟨a, b, v⟩ := r
  unfold longFormat removeDiag
  simp only [List.mem_flatMap, List.mem_range, List.mem_filterMap]
  constructor
  · rintro ⟨a', ha', b', hb', h⟩
    by_cases e : a' = b'
    · subst e; rw [if_pos rfl] at h; simp at h
    · rw [if_neg e] at h
      simp only [Option.map_some, Option.some.injEq, Prod.mk.injEq] at h
      obtain ⟨rfl, rfl, rfl⟩ := h
      exact ⟨ha', hb', e, rfl⟩
  · rintro ⟨ha, hb, hne, hv⟩
    refine ⟨a, ha, b, hb, ?_⟩
    simp [hne, hv]

/-- Hence the LP-smoothed covariance does not depend on the diagonal of the raw covariance at all,
whatever the smoother: two raw covariances that agree off the diagonal give the same result. -/
theorem smoothLP_ignores_diag (S : List (ℕ × ℕ × ℚ) → ℕ → ℕ → ℚ) (m : ℕ) (M M' : ℕ → ℕ → ℚ)
    (h : ∀ a b, a ≠ b → M a b = M' a b) : smoothCovLP S m M = smoothCovLP S m M' := by
  unfold smoothCovLP
  have : removeDiag M = removeDiag M' := by
    funext a b; unfold removeDiag
    by_cases e : a = b
    · simp [e]
    · simp [e, h a b e]
  rw [this]

/-- P-spline branch: the smoother receives the raw covariance with a zero diagonal and 0/1 weights
that vanish exactly where the *raw* entry vanished — the weights are computed before the diagonal is
zeroed, so a non-zero diagonal entry enters the fit as an observed `0` with weight one (mirrored as
coded; the fit itself is C05's matter). -/
theorem smoothPS_input (M : ℕ → ℕ → ℚ) (a b : ℕ) :
    zeroDiag M a a = 0 ∧ (a ≠ b → zeroDiag M a b = M a b) ∧
    (psWeights M a b = 0 ∨ psWeights M a b = 1) ∧ (psWeights M a b = 0 ↔ M a b = 0) := by
  unfold zeroDiag psWeights
  refine ⟨by simp, fun h => by simp [h], ?_, ?_⟩
  · by_cases e : M a b = 0 <;> simp [e]
  · by_cases e : M a b = 0 <;> simp [e]

/-- Smoothed covariances are symmetric for ANY smoother (both branches). -/
theorem covSmoothed_symm (Sm : (ℕ → ℚ) → ℕ → ℚ) (SL : List (ℕ × ℕ × ℚ) → ℕ → ℕ → ℚ)
    (SP : (ℕ → ℕ → ℚ) → (ℕ → ℕ → ℚ) → ℕ → ℕ → ℚ) (N m : ℕ) (X : ℕ → ℕ → ℚ) (a b : ℕ) :
    covSmoothedLP Sm SL N m X a b = covSmoothedLP Sm SL N m X b a ∧
    covSmoothedPS Sm SP N X a b = covSmoothedPS Sm SP N X b a :=
  ⟨symmetrise_symm _ a b, symmetrise_symm _ a b⟩

/-- … and independent of the order of the observations for ANY mean smoother and ANY covariance
smoother (they only ever see the permutation-invariant sample mean and cross-products). -/
theorem covSmoothed_perm_invariant (Sm : (ℕ → ℚ) → ℕ → ℚ) (SL : List (ℕ × ℕ × ℚ) → ℕ → ℕ → ℚ)
    (SP : (ℕ → ℕ → ℚ) → (ℕ → ℕ → ℚ) → ℕ → ℕ → ℚ) (N m : ℕ) (X : ℕ → ℕ → ℚ) (σ : ℕ → ℕ)
    (hσ : Set.BijOn σ (range N : Set ℕ) (range N : Set ℕ)) :
    covSmoothedLP Sm SL N m (fun i => X (σ i)) = covSmoothedLP Sm SL N m X ∧
    covSmoothedPS Sm SP N (fun i => X (σ i)) = covSmoothedPS Sm SP N X := by
  have hm : colMean N (fun i => X (σ i)) = colMean N X := by
    funext j; exact colMean_perm N X σ hσ j
  have : covOf N 1 (centerSmoothed Sm N (fun i => X (σ i))) = covOf N 1 (centerSmoothed Sm N X) := by
    funext a b
    unfold covOf centerSmoothed
    rw [hm]
    congr 1
    exact sum_perm N (fun i => (X i a - Sm (colMean N X) a) * (X i b - Sm (colMean N X) b)) σ hσ
  unfold covSmoothedLP covSmoothedPS
  rw [this]
  exact ⟨rfl, rfl⟩

/-- When the smoother's output is already symmetric the final symmetrisation changes nothing;
and with the identity as mean smoother the smoothed path starts from the sample covariance. -/
theorem covSmoothed_of_symmetric_smoother (Sm : (ℕ → ℚ) → ℕ → ℚ) (SL : List (ℕ × ℕ × ℚ) → ℕ → ℕ → ℚ)
    (N m : ℕ) (X : ℕ → ℕ → ℚ) :
    ((∀ a b, smoothCovLP SL m (covOf N 1 (centerSmoothed Sm N X)) a b =
        smoothCovLP SL m (covOf N 1 (centerSmoothed Sm N X)) b a) →
      ∀ a b, covSmoothedLP Sm SL N m X a b = smoothCovLP SL m (covOf N 1 (centerSmoothed Sm N X)) a b) ∧
    covOf N 1 (centerSmoothed (fun μ => μ) N X) = cov N 1 X :=
  ⟨fun hS a b => (symmetrise_fixed _).2 hS a b, rfl⟩

/-! ### the integration window of the covariance-diagonal noise estimate -/

/-- For `p ≥ 2` requested points the window `[round(p/4), round(3p/4))` is non-empty and lies
inside `[0, p)`; from `p = 4` on it holds at least two nodes (a genuine interval). -/
theorem noise_window (p : ℕ) (hp : 2 ≤ p) :
    roundHalfEven ((p : ℚ) / 4) < roundHalfEven (3 * (p : ℚ) / 4) ∧
    roundHalfEven (3 * (p : ℚ) / 4) ≤ p ∧
    (4 ≤ p → roundHalfEven ((p : ℚ) / 4) + 2 ≤ roundHalfEven (3 * (p : ℚ) / 4)) := by
  have hp' : (2 : ℚ) ≤ p := by exact_mod_cast hp
  obtain ⟨l1, _⟩ := roundHalfEven_near ((p : ℚ) / 4) (by positivity)
  obtain ⟨h1, h2⟩ := roundHalfEven_near (3 * (p : ℚ) / 4) (by positivity)
  set lo := roundHalfEven ((p : ℚ) / 4)
  set hi := roundHalfEven (3 * (p : ℚ) / 4)
  have hhi : hi ≤ p := by
    have : (hi : ℚ) ≤ p := by linarith
    exact_mod_cast this
  by_cases h5 : 5 ≤ p
  · have h5' : (5 : ℚ) ≤ p := by exact_mod_cast h5
    have : (lo : ℚ) + 3 / 2 ≤ hi := by linarith
    have h2' : lo + 2 ≤ hi := by
      have : (lo : ℚ) + 1 < hi := by linarith
      have : lo + 1 < hi := by exact_mod_cast this
      omega
    exact ⟨by omega, hhi, fun _ => h2'⟩
  · have : p = 2 ∨ p = 3 ∨ p = 4 := by omega
    rcases this with rfl | rfl | rfl <;> refine ⟨by decide +kernel, by decide +kernel, ?_⟩
    · intro h; omega
    · intro h; omega
    · intro _; decide +kernel

/-- With 1 or 3 requested points the window holds a single node, the integral is empty and the
estimate is `0` whatever the data. -/
theorem noise_window_degenerate (pts varHat sm : ℕ → ℚ) (rng : ℚ) :
    noiseFromCov 1 pts varHat sm rng = 0 ∧ noiseFromCov 3 pts varHat sm rng = 0 := by
  have e1 : roundHalfEven ((1 : ℕ) / 4 : ℚ) = 0 := by decide +kernel
  have e2 : roundHalfEven (3 * ((1 : ℕ) : ℚ) / 4) = 1 := by decide +kernel
  have e3 : roundHalfEven (((3 : ℕ) : ℚ) / 4) = 1 := by decide +kernel
  have e4 : roundHalfEven (3 * ((3 : ℕ) : ℚ) / 4) = 2 := by decide +kernel
  constructor
  · unfold noiseFromCov; simp only [e1, e2]; simp [trapz]
  · unfold noiseFromCov; simp only [e3, e4]; simp [trapz]

/-! ### the tie to the source: constants, operators, guards and axes translated on every run -/

/-- **What the source says today is what the model uses** (noise variance): order bounds 1 and 10 with `ValueError`, the
short-curve guard `len(x) < order + 1` returning 0, windows `x[idx : idx + order + 1]`, `range(len(x) - order)`, the square, the mean
over the windows; mean over all curves with `order` passed on (dense, irregular after dropping NaN, multivariate component-wise).
Re-proved on every run from `Generated/StatsFormulas.lean`; a harmless rewrite of the source translates to the same constants. -/
theorem source_noise_formulas : Generated.noiseFormulas = modelNoise := by decide

/-- The same for `mean` (axis 0) and `covariance` without smoothing: `np.dot(data.values.T, data.values) / (self.n_obs - 1)`, centring
by default, `(cov + cov.T) / 2`. -/
theorem source_cov_formulas : Generated.covFormulas = modelCov := by decide

/-- The per-curve estimator written with the source's offsets is the model's `noiseVar1` (every order, weights, length, curve). -/
theorem coded_noise_window (q : ℕ) (d : ℕ → ℚ) (L : ℕ) (x : ℕ → ℚ) :
    noiseVar1Coded Generated.noiseFormulas q d L x = noiseVar1 q d L x := by
  rw [source_noise_formulas]
  simp [noiseVar1Coded, modelNoise, noiseVar1, window]

/-- The order guard written with the source's bounds rejects exactly when the model raises the source's error class. -/
theorem coded_order_guard (order : ℤ) (L : ℕ) (x : ℕ → ℚ) :
    orderRejectedCoded Generated.noiseFormulas order ↔ noiseVar1E order L x = .error Generated.noiseFormulas.guardError := by
  rw [source_noise_formulas]
  exact (noise_order_guard order L x).1.symm

/-- Data-set level: all curves enter the mean, `order` is passed on by the dense, irregular and multivariate methods, and the model's
`noiseVarE` is the mean of the coded per-curve estimators. -/
theorem coded_noise_dataset (order : ℤ) (N : ℕ) (L : ℕ → ℕ) (X : ℕ → ℕ → ℚ) (h1 : 1 ≤ order) (h10 : order ≤ 10) :
    Generated.noiseFormulas.denseMeanOverCurves = true ∧ Generated.noiseFormulas.denseForwardsOrder = true ∧
    Generated.noiseFormulas.irregularStripsNaN = true ∧ Generated.noiseFormulas.irregularMeanOverCurves = true ∧
    Generated.noiseFormulas.irregularForwardsOrder = true ∧
    Generated.noiseFormulas.multiComponentwise = true ∧ Generated.noiseFormulas.multiForwardsOrder = true ∧
    noiseVarE order N L X = .ok ((∑ i ∈ range N, noiseVar1Coded Generated.noiseFormulas order.toNat (dseq order.toNat) (L i) (X i)) / N) := by
  refine ⟨by rw [source_noise_formulas]; rfl, by rw [source_noise_formulas]; rfl, by rw [source_noise_formulas]; rfl,
    by rw [source_noise_formulas]; rfl, by rw [source_noise_formulas]; rfl, by rw [source_noise_formulas]; rfl,
    by rw [source_noise_formulas]; rfl, ?_⟩
  rw [(noise_dataset_guard order N L X).1 h1 h10]
  simp only [coded_noise_window]
  rfl

/-- The mean is the average over axis 0 (the observations); the cross-product with the source's transposes and divisor is the model's
sample covariance, and the source's symmetrisation gives what the model returns. -/
theorem coded_cov (N m : ℕ) (X : ℕ → ℕ → ℚ) (a b : ℕ) :
    colMean N X = (fun j => (∑ i ∈ range N, X i j) / N) ∧ Generated.covFormulas.meanAxis = 0 ∧
    covCoded Generated.covFormulas N m (center N X) a b = cov N 1 X a b ∧
    symmetriseCoded Generated.covFormulas (covCoded Generated.covFormulas N m (center N X)) a b = covImpl N X a b := by
  rw [source_cov_formulas]
  refine ⟨rfl, rfl, ?_, ?_⟩
  · simp [covCoded, modelCov, cov, covOf]
  · have h : covCoded modelCov N m (center N X) = cov N 1 X := by
      funext a b; simp [covCoded, modelCov, cov, covOf]
    rw [h]
    simp [symmetriseCoded, modelCov, covImpl, symmetrise]

/-! ### non-vacuity: the hypotheses of the theorems above are met by concrete objects -/

/-- A genuine permutation of three observations (hypothesis of `mean_perm_invariant`,
`cov_perm_invariant`, `noise_is_mean_of_curves`). -/
example : Set.BijOn (fun i => 2 - i) (range 3 : Set ℕ) (range 3 : Set ℕ) := by
  refine ⟨fun i hi => ?_, fun i hi j hj h => ?_, fun j hj => ?_⟩
  · simp only [coe_range, Set.mem_Iio] at hi ⊢; omega
  · simp only [coe_range, Set.mem_Iio] at hi hj; simp only at h; omega
  · simp only [coe_range, Set.mem_Iio] at hj
    exact ⟨2 - j, by simp only [coe_range, Set.mem_Iio]; omega, by simp only; omega⟩

/-- `cov_is_unbiased_sample_cov`, `cov_psd` (`2 ≤ N`): three curves on two points; the
sample covariance of `(1,2),(3,4),(5,9)` at `(0,1)` is `7`. -/
example : cov 3 1 (ofMat [[1, 2], [3, 4], [5, 9]]) 0 1 = 7 := by
  norm_num [cov, covOf, center, colMean, ofMat, rd2, Finset.sum_range_succ]

/-- `noise_shift_bound` / `noise_shift_table`: `r = 7071/10000` is the exact square root
of the order-1 estimate of the curve `(1, 0, 1)`. -/
example : (0 : ℚ) ≤ 7071 / 10000 ∧ ((7071 : ℚ) / 10000) ^ 2 = noiseVar1 1 (dseq 1) 3 (ofList [1, 0, 1]) := by
  refine ⟨by norm_num, ?_⟩
  norm_num [noiseVar1, window, dseq, Generated.diffSeq, ofList, rd, Finset.sum_range_succ]

/-- `noise_impulse` (`q ≤ p`, `p + q + 1 ≤ L`): order 1, spike at position 1 of a curve of length 3. -/
example : noiseVar1 1 (dseq 1) 3 (fun k => if k = 1 then 2 else 0) = 4 * (2 * (7071 / 10000) ^ 2) / 2 := by
  norm_num [noiseVar1, window, dseq, Generated.diffSeq, ofList, rd, Finset.sum_range_succ]

/-- `noise_order_guard`: order 11 is rejected, order 2 on a curve of length 2 gives 0. -/
example : noiseVar1E 11 5 (fun _ => 1) = .error "ValueError" ∧ noiseVar1E 2 2 (fun _ => 1) = .ok 0 := by
  constructor <;> decide

/-- `cov_diag_noise_clipped`: a case where the clip is active (`varHat < sm`). -/
example : noiseFromCov 4 (fun j => j) (fun _ => 0) (fun _ => 1) 3 = 0 := by
  decide +kernel

/-- `covIrr_complete_centered` / `covIrr_never_coobserved`: three curves on two points; complete data give
the population covariance `14/3 = (2/3)·7`; if no curve sees both points the entry is `0`. -/
example : rawCovIrr 3 (fun _ _ => true) (center 3 (ofMat [[1, 2], [3, 4], [5, 9]])) 0 1 = 14 / 3 ∧
    rawCovIrr 3 (fun i a => decide (i = a)) (ofMat [[1, 2], [3, 4], [5, 9]]) 0 1 = 0 := by
  constructor <;> decide +kernel

/-- `longFormat_mem`: the rows of a 2×2 raw covariance without its diagonal, in the order of the code. -/
example : longFormat 2 (removeDiag (ofMat [[1, 2], [3, 4]])) = [(0, 1, 2), (1, 0, 3)] := by decide +kernel

end C09
