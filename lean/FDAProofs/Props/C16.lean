/-
C16 — analysis never changes its inputs and is repeatable.

Theorems about the heap semantics and the aliasing skeletons of
`FDAModel/Alias.lean` (the definitions `Drivers/C16.lean` executes).  "Unchanged"
always means: the buffer content and the fields of a cell are what they were;
the private cache slots may be set (`Same`).
-/
import FDAProofs.Lemmas.Alias

namespace C16
open FDA.Alias

/-- Soundness of `freshTargets`.  A method whose skeleton passes the check leaves EVERY cell
that existed before the call — the values and sampling points of its inputs, the objects of the
user-supplied configuration, the results returned by earlier calls — unchanged, whatever the heap
and whatever its arguments are bound to. -/
theorem soundness (sk : Skel) (hc : freshTargets sk = true) (e : Env) (h : Heap) :
    ∀ r, r < h.next → Same ((exec sk.body e h).2.cell r) (h.cell r) :=
  check_sound sk.body [] e h h.next hc (fun _ hv => by simp at hv) (Nat.le_refl _)

example : freshTargets skCopyArgvals = true := by decide

/-- Calls only allocate: the frontier of allocated cells never moves back, so the cells of the
inputs and of earlier results stay "pre-existing" for every later call. -/
theorem frontier_monotone (sk : Skel) (e : Env) (h : Heap) : h.next ≤ (exec sk.body e h).2.next :=
  exec_next sk.body e h

/-- Histories.  Over ANY sequence of calls whose skeletons pass the check (any arguments, any
interleaving), every cell that existed at the start is unchanged at the end. -/
theorem sequence : ∀ (calls : List Call) (h : Heap), (∀ c ∈ calls, freshTargets c.skel = true) →
    ∀ r, r < h.next → Same ((runCalls calls h).cell r) (h.cell r)
  | [], h, _, r, _ => Same.refl _
  | c :: cs, h, hall, r, hr => by
    have h1 := soundness c.skel (hall c (by simp)) c.env h r hr
    have hn := frontier_monotone c.skel c.env h
    have h2 := sequence cs (exec c.skel.body c.env h).2 (fun c' hc' => hall c' (by simp [hc'])) r (by omega)
    exact Same.trans h2 h1

/-- "Results share no mutable state with inputs through which a later call could alter them",
and "results returned earlier are not modified": after ANY first call `a`, every cell of the heap
it leaves behind — in particular every cell reachable from its result, whether freshly allocated
or shared with the inputs — is unchanged by any later sequence of checked calls. -/
theorem earlier_results_unchanged (a : Call) (cs : List Call) (h : Heap)
    (hall : ∀ c ∈ cs, freshTargets c.skel = true) :
    ∀ r, r < (exec a.skel.body a.env h).2.next →
      Same ((runCalls (a :: cs) h).cell r) ((exec a.skel.body a.env h).2.cell r) :=
  fun r hr => sequence cs _ hall r hr

/-- all pairs of consecutive calls (call A; snapshot; call B; compare): the statement of the
property's quantifier, for two checked calls -/
theorem consecutive_pair (a b : Call) (h : Heap) (hb : freshTargets b.skel = true) :
    ∀ r, r < (exec a.skel.body a.env h).2.next →
      Same ((runCalls [a, b] h).cell r) ((exec a.skel.body a.env h).2.cell r) :=
  earlier_results_unchanged a [b] h (by intro c hc; simp at hc; rw [hc]; exact hb)

/-- "Repeating a call returns identical results": a skeleton that reads no cache slot computes the
same references and the same heap (up to caches) from two heaps that differ only in what earlier
calls stored in the caches. -/
theorem deterministic (sk : Skel) (hr : readsCache sk.body = false) (e : Env) (h h' : Heap)
    (hs : HeapSame h h') :
    (exec sk.body e h).1 = (exec sk.body e h').1 ∧ HeapSame (exec sk.body e h).2 (exec sk.body e h').2 :=
  exec_cache_independent sk.body e h h' hr hs

example : readsCache skCopyArgvals.body = false := by decide

/-! ### every modelled method passes the check (target tree) -/

/-- dense `center`; multivariate components of `center` / `standardize` -/
theorem method_center_dense : freshTargets skCopyArgvals = true := by decide
/-- dense `mean`, `normalize`, `smooth`, `standardize`, `concatenate`; irregular `center`,
`normalize`, `standardize` -/
theorem method_share_argvals : freshTargets skShareArgvals = true := by decide
/-- `norm`, `inner_product`, `noise_variance`, `to_long`; irregular `mean`, `covariance`, `smooth`, `to_basis` -/
theorem method_fresh_result : freshTargets skFresh = true := by decide
/-- dense / irregular `rescale` -/
theorem method_rescale : freshTargets skRescale = true := by decide
/-- dense `covariance` -/
theorem method_covariance_dense : freshTargets skCovarianceDense = true := by decide
/-- dense `to_basis` -/
theorem method_to_basis_dense : freshTargets skToBasisDense = true := by decide
/-- irregular `concatenate` -/
theorem method_concatenate_irregular : freshTargets skConcatIrregular = true := by decide
/-- basis data `center`, `mean`, `normalize` -/
theorem method_basis_share : freshTargets skBasisShare = true := by decide
/-- basis data `rescale` -/
theorem method_basis_rescale : freshTargets skBasisRescale = true := by decide
/-- basis data `covariance` -/
theorem method_basis_covariance : freshTargets skBasisCovariance = true := by decide
/-- basis data `to_grid` -/
theorem method_basis_to_grid : freshTargets skBasisToGrid = true := by decide
/-- basis data `standardize` (target tree: new basis object) -/
theorem method_basis_standardize : freshTargets skBasisStandardize = true := by decide
/-- basis data `standardize(center=False)` -/
theorem method_basis_standardize_nocenter : freshTargets skBasisStandardizeNoCenter = true := by decide
/-- multivariate `center`, `standardize` -/
theorem method_multi_copy_argvals : freshTargets skMultiCopyArgvals = true := by decide
/-- multivariate `mean`, `normalize`, `smooth`, `standardize(center=False)` -/
theorem method_multi_share_argvals : freshTargets skMultiShareArgvals = true := by decide
/-- multivariate `covariance` -/
theorem method_multi_covariance : freshTargets skMultiCovariance = true := by decide
/-- multivariate `rescale` -/
theorem method_multi_rescale : freshTargets skMultiRescale = true := by decide
/-- multivariate `to_basis` -/
theorem method_multi_to_basis : freshTargets skMultiToBasis = true := by decide
/-- multivariate `to_grid` -/
theorem method_multi_to_grid : freshTargets skMultiToGrid = true := by decide
/-- `UFPCA.fit`, `FCPTPA.fit`, `PSplines.fit`, `MFPCA.fit` (inner-product route) -/
theorem method_estimator_fit : freshTargets skEstimatorFit = true := by decide
/-- `transform`, `inverse_transform`, `predict` -/
theorem method_estimator_apply : freshTargets skEstimatorApply = true := by decide
/-- `MFPCA.fit` (covariance route, target tree: the expansion dictionaries are copied) -/
theorem method_mfpca_fit : freshTargets skMFPCAFit = true := by decide

/-- every skeleton the driver serves, except the two that describe the code before the repairs,
passes the check -/
theorem table_all_fresh :
    ∀ sk ∈ [skCopyArgvals, skShareArgvals, skFresh, skRescale, skCovarianceDense, skToBasisDense, skConcatIrregular,
      skBasisShare, skBasisRescale, skBasisCovariance, skBasisToGrid, skBasisStandardize, skBasisStandardizeNoCenter,
      skMultiCopyArgvals, skMultiShareArgvals, skMultiCovariance, skMultiRescale, skMultiToBasis, skMultiToGrid,
      skEstimatorFit, skEstimatorApply, skMFPCAFit], freshTargets sk = true := by
  decide

/-- hence: any history over the modelled methods leaves inputs, configuration and earlier
results unchanged -/
theorem modelled_histories_safe (calls : List Call) (h : Heap)
    (hm : ∀ c ∈ calls, c.skel.body ∈ [skCopyArgvals, skShareArgvals, skFresh, skRescale, skCovarianceDense, skToBasisDense,
      skConcatIrregular, skBasisShare, skBasisRescale, skBasisCovariance, skBasisToGrid, skBasisStandardize,
      skBasisStandardizeNoCenter, skMultiCopyArgvals, skMultiShareArgvals, skMultiCovariance, skMultiRescale,
      skMultiToBasis, skMultiToGrid, skEstimatorFit, skEstimatorApply, skMFPCAFit].map Skel.body) :
    ∀ r, r < h.next → Same ((runCalls calls h).cell r) (h.cell r) := by
  apply sequence
  intro c hc
  have := hm c hc
  simp only [List.map_cons, List.map_nil, List.mem_cons, List.not_mem_nil, or_false] at this
  unfold freshTargets
  rcases this with h | h | h | h | h | h | h | h | h | h | h | h | h | h | h | h | h | h | h | h | h | h <;>
    (rw [h]; decide)

/-- a concrete heap: `self = [basis, coefficients]`, `basis = [argvals, values]`; after the coded
`standardize` the fields of the basis object of `self` (cell 1) are no longer what they were -/
def demoHeap : Heap :=
  { cell := fun r => match r with
      | 0 => ⟨0, [1, 4], []⟩ | 1 => ⟨0, [2, 3], []⟩ | _ => ⟨0, [], []⟩,
    next := 5 }


/-! ### views, subsets and objects that share cells -/

/-- No write through a view.  Every reference a checked method writes in place (targets of
`setFields`, `writeData`, `popKey`) is a cell allocated inside the call: a NumPy view of an input
(`Stmt.view`, the same buffer) — or any other pre-existing cell — is never a write target.  A
result that shares memory with an input (`fd[1:3]`, shared argvals, a shared basis) is therefore
harmless as long as every method passes the check. -/
theorem no_write_through_views (sk : Skel) (hc : freshTargets sk = true) (e : Env) (h : Heap) :
    ∀ r ∈ writes sk.body e h, h.next ≤ r :=
  writes_fresh sk.body [] e h h.next hc (fun _ hv => by simp at hv) (Nat.le_refl _)

example : writes skGetitemView.body (fun _ => 0) demoHeap = [demoHeap.next] := by decide

/-- `fd[i]`, `fd[a:b]` (dense, basis expansion): the values of the result are a view of the input's -/
theorem method_getitem_view : freshTargets skGetitemView = true := by decide
/-- the subset really shares the buffer of its parent: field 1 of the result is field 1 of `self` -/
theorem getitem_view_shares_buffer (e : Env) (h : Heap) :
    ((exec skGetitemView.body e h).2.cell ((exec skGetitemView.body e h).1 skGetitemView.ret)).fields =
      [((h.cell (e 0)).fields)[0]?.getD 0, ((h.cell (e 0)).fields)[1]?.getD 0] := by
  simp [skGetitemView, exec, exec1, upd, hupd, halloc, Stmt.view]
/-- `fd[idx]` on irregular data, for every index list -/
theorem method_getitem_irregular (idx : List Nat) : freshTargets (skGetitemIrregular idx) = true := rfl
/-- `mfd[i]`, `mfd[a:b]` -/
theorem method_multi_getitem_view : freshTargets skMultiGetitemView = true := by decide
/-- `transform(data)`: the data argument is only read -/
theorem method_transform : freshTargets skTransform = true := by decide
/-- `inverse_transform(scores)`: the caller's score array is only read -/
theorem method_inverse_transform : freshTargets skInverseTransform = true := by decide
/-- the in-place rescaling of the scores (seeded change of round 2) is refused, and on a concrete
heap the caller's array (cell 3 bound to variable 1) is modified -/
theorem inplace_inverse_transform_rejected :
    freshTargets skInverseTransformInPlace = false ∧
    ¬ Same ((exec skInverseTransformInPlace.body (fun v => if v = 1 then 3 else 0) demoHeap).2.cell 3) (demoHeap.cell 3) := by
  refine ⟨by decide, ?_⟩
  unfold Same; decide

/-- multivariate `mean` / `smooth` on a user-supplied `points` list: the list is only read -/
theorem method_multi_on_points : freshTargets skMultiOnPoints = true := by decide
/-- multivariate `covariance` on a user-supplied `points` list -/
theorem method_multi_covariance_on_points : freshTargets skMultiCovarianceOnPoints = true := by decide
/-- filling the `None` entries of the caller's `points` list in place (seeded change of round 5) is
refused: list and dict ARGUMENTS are cells like any other input -/
theorem fit_fills_points_list_rejected : freshTargets skFitFillsPointsList = false := by decide

/-- Subset and parent.  After `sub = parent[a:b]` (a view), ANY history of checked calls — on the
parent, on the subset, on both in any order, with any other arguments — leaves every cell of
both unchanged: the shared buffer included. -/
theorem subset_and_parent_safe (e : Env) (h : Heap) (calls : List Call)
    (hall : ∀ c ∈ calls, freshTargets c.skel = true) :
    ∀ r, r < (exec skGetitemView.body e h).2.next →
      Same ((runCalls calls (exec skGetitemView.body e h).2).cell r) ((exec skGetitemView.body e h).2.cell r) :=
  fun r hr => sequence calls _ hall r hr

/-- Two objects that share cells (a basis shared by two `BasisFunctionalData`, a subset and its
parent, the components of two multivariate objects): any interleaving of checked calls on `a` and
on `b` leaves every existing cell unchanged — no hypothesis on how much they share is needed. -/
theorem shared_cells_safe (h : Heap) (a b : Nat) (calls : List Call)
    (hall : ∀ c ∈ calls, freshTargets c.skel = true ∧ (c.args.head? = some a ∨ c.args.head? = some b)) :
    ∀ r, r < h.next → Same ((runCalls calls h).cell r) (h.cell r) :=
  sequence calls h fun c hc => (hall c hc).1

/-- two basis-expansion objects (cells 0 and 5) on ONE basis object (cell 1) -/
def sharedBasisHeap : Heap :=
  { cell := fun r => match r with
      | 0 => ⟨0, [1, 4], []⟩ | 1 => ⟨0, [2, 3], []⟩ | 5 => ⟨0, [1, 6], []⟩ | _ => ⟨0, [], []⟩,
    next := 7 }

example : ∀ r, r < sharedBasisHeap.next →
    Same ((runCalls [⟨skBasisStandardize, [0]⟩, ⟨skBasisShare, [5]⟩, ⟨skBasisStandardize, [5]⟩, ⟨skBasisToGrid, [0]⟩]
      sharedBasisHeap).cell r) (sharedBasisHeap.cell r) :=
  shared_cells_safe sharedBasisHeap 0 5 _ (by decide)

/-- … whereas with the `standardize` coded before the repair the SECOND object sees its basis
change when the first one is standardised -/
theorem shared_basis_coded_counterexample :
    ¬ Same ((runCalls [⟨skBasisStandardizeCoded, [0]⟩] sharedBasisHeap).cell 1) (sharedBasisHeap.cell 1) := by
  unfold Same; decide

/-! ### the result belongs to the caller -/

/-- Result independence.  If a method still passes the check when the owner's edits of the
result (`pop`, `reverse`, `append`, `del`, `popitem` on the returned container) are appended to
it, then those edits leave every cell that existed before the call — the inputs — unchanged. -/
theorem result_independent (sk : Skel) (h : resultOwned sk = true) (e : Env) (h0 : Heap) :
    ∀ r, r < h0.next → Same ((exec (sk.body ++ ownerEdits sk.ret) e h0).2.cell r) (h0.cell r) :=
  check_sound (sk.body ++ ownerEdits sk.ret) [] e h0 h0.next h (fun _ hv => by simp at hv) (Nat.le_refl _)

/-- every modelled method of the target tree returns a container of its own -/
theorem table_results_owned :
    ∀ sk ∈ [skCopyArgvals, skShareArgvals, skFresh, skRescale, skCovarianceDense, skToBasisDense, skConcatIrregular,
      skBasisShare, skBasisRescale, skBasisCovariance, skBasisToGrid, skBasisStandardize, skBasisStandardizeNoCenter,
      skMultiCopyArgvals, skMultiShareArgvals, skMultiCovariance, skMultiRescale, skMultiToBasis, skMultiToGrid,
      skMultiOnPoints, skMultiCovarianceOnPoints, skGetitemView, skMultiGetitemView, skTransform, skInverseTransform],
      resultOwned sk = true := by
  decide

/-- `fd[idx]` on irregular data returns new dictionaries for every index list -/
theorem getitem_irregular_result_owned (idx : List Nat) : resultOwned (skGetitemIrregular idx) = true := rfl

/-- Handing back the input container is refused (`return self`; `MultivariateFunctionalData.copy()`
of the current tree, whose `.data` is the original object): the method itself writes nothing, but
the owner's first `pop` on the result edits the input — on the demo heap the fields of cell 0. -/
theorem returns_input_container_counterexample :
    freshTargets skReturnsInputContainer = true ∧ resultOwned skReturnsInputContainer = false ∧
    ¬ Same ((exec (skReturnsInputContainer.body ++ ownerEdits skReturnsInputContainer.ret) (fun _ => 0) demoHeap).2.cell 0)
        (demoHeap.cell 0) := by
  refine ⟨by decide, by decide, ?_⟩
  unfold Same; decide

/-- What the property asks for every data-returning public method; it fails for `copy` on the
current tree (open finding C16-multivariate-copy-shares-container), `table_results_owned` is the
part that holds. -/
def results_owned_full_statement : Prop :=
  ∀ sk ∈ [skMultiToGrid, skReturnsInputContainer], resultOwned sk = true

theorem counterexample : ¬ results_owned_full_statement := by
  unfold results_owned_full_statement; decide

/-! ### the code before the repairs fails the check, and really changes an input -/

/-- `BasisFunctionalData.standardize` as coded before the repair writes through the basis object
it shares with `self` -/
theorem coded_standardize_rejected : freshTargets skBasisStandardizeCoded = false := by decide

theorem coded_standardize_counterexample :
    ¬ Same ((exec skBasisStandardizeCoded.body (fun _ => 0) demoHeap).2.cell 1) (demoHeap.cell 1) := by
  unfold Same; decide

/-- `MFPCA.fit` as coded before the repair pops from the user's dictionaries -/
theorem coded_mfpca_fit_rejected : freshTargets skMFPCAFitCoded = false := by decide

/-- estimator `[univariate_expansions]`, list `[dict0, dict1]`, each dict two entries: after the
coded fit the first user dictionary (cell 2) has lost its entries -/
def demoConfigHeap : Heap :=
  { cell := fun r => match r with
      | 0 => ⟨0, [1], []⟩ | 1 => ⟨0, [2, 3], []⟩ | 2 => ⟨0, [4, 5], []⟩ | 3 => ⟨0, [6, 7], []⟩ | _ => ⟨0, [], []⟩,
    next := 8 }

theorem coded_mfpca_fit_counterexample :
    ¬ Same ((exec skMFPCAFitCoded.body (fun _ => 0) demoConfigHeap).2.cell 2) (demoConfigHeap.cell 2) := by
  unfold Same; decide

/-- while the repaired skeletons leave those cells alone on the same heaps -/
theorem repaired_on_demo_heaps :
    Same ((exec skBasisStandardize.body (fun _ => 0) demoHeap).2.cell 1) (demoHeap.cell 1) ∧
    Same ((exec skMFPCAFit.body (fun _ => 0) demoConfigHeap).2.cell 2) (demoConfigHeap.cell 2) :=
  ⟨soundness skBasisStandardize method_basis_standardize _ demoHeap 1 (by decide),
   soundness skMFPCAFit method_mfpca_fit _ demoConfigHeap 2 (by decide)⟩

end C16
