/-
C14 — changing representation does not change the data.
Only property theorems and non-vacuity examples live here; helper lemmas are in
`FDAProofs/Lemmas/Repr.lean` and `FDAProofs/Lemmas/Tabular.lean`.
-/
import FDAProofs.Lemmas.Repr
import FDAProofs.Lemmas.Tabular
import FDAProofs.Lemmas.Irregular
import FDAModel.Generated.CsvRule
import FDAModel.Generated.CoefSpaceFormulas

namespace C14
open FDA FDA.Tab Finset

/-! ## Evaluation on the grid commutes with linear operations and statistics -/

/-- Evaluation on the grid is linear in the coefficients (any basis, any sizes). -/
theorem to_grid_linear (K : ℕ) (c d Φ : ℕ → ℕ → ℚ) (a b : ℚ) (i j : ℕ) :
    toGrid K (fun i k => a * c i k + b * d i k) Φ i j =
      a * toGrid K c Φ i j + b * toGrid K d Φ i j := by
  unfold toGrid
  rw [Finset.mul_sum, Finset.mul_sum, ← Finset.sum_add_distrib]
  apply Finset.sum_congr rfl; intro k _; ring

/-- Mean: the mean of the coefficients evaluates to the mean of the evaluated curves. -/
theorem mean_commutes (N K : ℕ) (c Φ : ℕ → ℕ → ℚ) (i j : ℕ) :
    toGrid K (meanCoef N c) Φ i j = colMean N (toGrid K c Φ) j := by
  unfold meanCoef
  exact toGrid_colMean N K c Φ j

/-- Centring in coefficient space is centring of the evaluated curves. -/
theorem center_commutes (N K : ℕ) (c Φ : ℕ → ℕ → ℚ) (i j : ℕ) :
    toGrid K (center N c) Φ i j = center N (toGrid K c Φ) i j :=
  toGrid_center N K c Φ i j

/-- The procedure of `Basis.inner_product` (upper triangle, tiny entries zeroed,
transpose added, diagonal halved) yields the thresholded symmetric Gram matrix. -/
theorem basis_gram_impl (m : ℕ) (t : ℕ → ℚ) (Φ : ℕ → ℕ → ℚ) (k l : ℕ) :
    basisGramImpl m t Φ k l = thr12 (basisGram m t Φ k l) := by
  have hsym : ∀ a b, inner m t (Φ a) (Φ b) = inner m t (Φ b) (Φ a) := by
    intro a b; unfold inner; congr 1; funext j; ring
  unfold basisGramImpl basisGram
  by_cases h : k = l
  · subst h; simp
  · rcases Nat.lt_or_gt_of_ne h with hlt | hgt
    · have h1 : k ≤ l := hlt.le
      have h2 : ¬ l ≤ k := by omega
      simp [h, h1, h2]
    · have h1 : ¬ k ≤ l := by omega
      have h2 : l ≤ k := hgt.le
      simp [h, h1, h2, hsym l k]

/-- … and it IS the Gram matrix `Φ W Φᵀ` when no entry lies strictly between `0`
and `10⁻¹²` in absolute value. -/
theorem basis_gram_impl_exact (m : ℕ) (t : ℕ → ℚ) (Φ : ℕ → ℕ → ℚ) (k l : ℕ)
    (h : basisGram m t Φ k l = 0 ∨ 1 / 1000000000000 ≤ |basisGram m t Φ k l|) :
    basisGramImpl m t Φ k l = basisGram m t Φ k l := by
  rw [basis_gram_impl]
  unfold thr12
  rcases h with h | h
  · rw [h]; simp
  · rw [if_neg (not_lt.mpr h)]

/-- Inner products: `C G Cᵀ` with `G = Φ W Φᵀ` equals the L² inner products of the
evaluated curves (what `BasisFunctionalData.inner_product` computes). -/
theorem inner_product_commutes (K m : ℕ) (t : ℕ → ℚ) (c Φ : ℕ → ℕ → ℚ) (i l : ℕ) :
    innerBasis K (basisGram m t Φ) c i l = inner m t (toGrid K c Φ i) (toGrid K c Φ l) := by
  rw [inner_toGrid]; rfl

/-- Norms computed from the coefficients are the norms of the evaluated curves. -/
theorem norm_commutes (K m : ℕ) (t : ℕ → ℚ) (c Φ : ℕ → ℕ → ℚ) (i : ℕ) :
    normSqBasis K (basisGram m t Φ) c i = normSq m t (toGrid K c Φ i) := by
  unfold normSqBasis normSq
  exact inner_product_commutes K m t c Φ i i

/-- The Gram matrix of the evaluated curves (`DenseFunctionalData.inner_product`,
which centres, noise variance 0) is `C G Cᵀ` of the CENTRED coefficients. -/
theorem inner_product_centred_commutes (N K m : ℕ) (t : ℕ → ℚ) (c Φ : ℕ → ℕ → ℚ) (i l : ℕ) :
    innerBasis K (basisGram m t Φ) (center N c) i l = gram N m t (toGrid K c Φ) i l := by
  rw [inner_product_commutes]
  unfold gram
  have h1 : toGrid K (center N c) Φ i = center N (toGrid K c Φ) i := by
    funext j; exact toGrid_center N K c Φ i j
  have h2 : toGrid K (center N c) Φ l = center N (toGrid K c Φ) l := by
    funext j; exact toGrid_center N K c Φ l j
  rw [h1, h2]

/-- What the property asks of `inner_product` (method vs the same method on `to_grid()`). -/
def inner_product_full_statement : Prop :=
  ∀ (N K m : ℕ) (t : ℕ → ℚ) (c Φ : ℕ → ℕ → ℚ) (i l : ℕ),
    innerBasis K (basisGram m t Φ) c i l = gram N m t (toGrid K c Φ) i l

/-- The part that holds: for centred data (mean coefficient zero) the uncentred
`C G Cᵀ` of the code is the Gram matrix of the evaluated curves. -/
theorem inner_product_commutes_partial (N K m : ℕ) (t : ℕ → ℚ) (c Φ : ℕ → ℕ → ℚ) (i l : ℕ)
    (h0 : ∀ k, k < K → colMean N c k = 0) :
    innerBasis K (basisGram m t Φ) c i l = gram N m t (toGrid K c Φ) i l := by
  rw [← inner_product_centred_commutes]
  unfold innerBasis
  apply Finset.sum_congr rfl; intro a ha
  apply Finset.sum_congr rfl; intro b hb
  unfold center
  rw [h0 a (mem_range.mp ha), h0 b (mem_range.mp hb)]
  ring

/-- The code does not meet the full statement: one observation with coefficient 1 on the
constant function over `[0, 1]` has `C G Cᵀ = 1` but a zero centred Gram matrix. -/
theorem counterexample : ¬ inner_product_full_statement := by
  intro h
  have := h 1 1 2 (fun j => (j : ℚ)) (fun _ _ => 1) (fun _ _ => 1) 0 0
  norm_num [innerBasis, basisGram, gram, inner, trapz, toGrid, center, colMean,
    Finset.sum_range_succ] at this

/-- Normalisation / rescaling: dividing the coefficients of observation `i` by `r i`
divides the evaluated curve by `r i` (whatever the number: the norm, `√weight`). -/
theorem normalize_commutes (K : ℕ) (c Φ : ℕ → ℕ → ℚ) (r : ℕ → ℚ) (i j : ℕ) :
    toGrid K (scaleRows c r) Φ i j = toGrid K c Φ i j / r i := by
  unfold toGrid scaleRows
  rw [Finset.sum_div]
  apply Finset.sum_congr rfl; intro k _; ring

/-- … and with `r i` a square root of the squared norm the result has norm one. -/
theorem normalize_unit (K m : ℕ) (t : ℕ → ℚ) (c Φ : ℕ → ℕ → ℚ) (r : ℕ → ℚ) (i : ℕ)
    (hr : r i ^ 2 = normSqBasis K (basisGram m t Φ) c i) (h0 : r i ≠ 0) :
    normSq m t (toGrid K (scaleRows c r) Φ i) = 1 := by
  have hfun : toGrid K (scaleRows c r) Φ i = fun j => toGrid K c Φ i j / r i := by
    funext j; exact normalize_commutes K c Φ r i j
  rw [hfun]
  unfold normSq inner
  have : (fun j => toGrid K c Φ i j / r i * (toGrid K c Φ i j / r i))
       = fun j => (toGrid K c Φ i j * toGrid K c Φ i j) / (r i ^ 2) := by
    funext j; field_simp
  rw [this, trapz_div]
  rw [norm_commutes] at hr
  unfold normSq inner at hr
  rw [← hr]
  field_simp

/-- Covariance: evaluating the coefficient-space covariance (`/n`) through
`np.kron(Φ, Φ)` gives `(n-1)/n` times the (`/(n-1)`) covariance of the evaluated curves. -/
theorem cov_commutes (N K m : ℕ) (c Φ : ℕ → ℕ → ℚ) (j j' : ℕ) (hj' : j' < m) (hN : 2 ≤ N) :
    covBasisGrid N K m c Φ j j' = ((N : ℚ) - 1) / N * covDense N (toGrid K c Φ) j j' := by
  rw [covBasisGrid_eq N K m c Φ j j' hj']
  unfold covDense
  have h1 : (N : ℚ) ≠ 0 := by
    have : (2 : ℚ) ≤ N := by exact_mod_cast hN
    linarith
  have h2 : (N : ℚ) - 1 ≠ 0 := by
    have : (2 : ℚ) ≤ N := by exact_mod_cast hN
    intro h; linarith
  field_simp

/-- Rescaling weight: the integral of the diagonal of the coefficient-space covariance
equals the integral of the pointwise (population) variance of the evaluated curves. -/
theorem rescale_weight_commutes (N K m : ℕ) (t : ℕ → ℚ) (c Φ : ℕ → ℕ → ℚ) :
    rescaleWeightBasis N K m t c Φ = rescaleWeightDense N m t (toGrid K c Φ) := by
  unfold rescaleWeightBasis rescaleWeightDense
  apply trapz_congr
  intro j hj
  rw [covBasisGrid_eq N K m c Φ j j hj]
  rfl

/-- Standardisation: dividing the basis functions pointwise by the standard deviation
curve divides the evaluated curves by it (zero where the deviation is zero). -/
theorem standardize_commutes (K : ℕ) (c Φ : ℕ → ℕ → ℚ) (s : ℕ → ℚ) (i j : ℕ) :
    toGrid K c (divGuard Φ s) i j = if s j = 0 then 0 else toGrid K c Φ i j / s j := by
  unfold toGrid divGuard
  by_cases h : s j = 0
  · simp [h]
  · simp only [h, if_false]
    rw [Finset.sum_div]
    apply Finset.sum_congr rfl; intro k _; ring

/-- … and the standardised curves have unit (population) variance at every point where
the deviation `s` (`s² = ` variance) is not zero: `standardize` does what it promises, in
either representation. -/
theorem standardize_unit_variance (N : ℕ) (hN : 0 < N) (X : ℕ → ℕ → ℚ) (s : ℕ → ℚ) (j : ℕ)
    (hs : s j ^ 2 = popVar N X j) (h0 : s j ≠ 0) :
    popVar N (fun i j => center N X i j / s j) j = 1 := by
  have hNq : (N : ℚ) ≠ 0 := by exact_mod_cast hN.ne'
  have hsum : ∑ i ∈ range N, center N X i j = 0 := by
    unfold center colMean
    rw [Finset.sum_sub_distrib, Finset.sum_const, card_range, nsmul_eq_mul]
    field_simp
    ring
  have hc : ∀ i, center N (fun i j => center N X i j / s j) i j = center N X i j / s j := by
    intro i
    show center N X i j / s j - colMean N (fun i j => center N X i j / s j) j = _
    have : colMean N (fun i j => center N X i j / s j) j = 0 := by
      unfold colMean
      rw [← Finset.sum_div, hsum]; simp
    rw [this, sub_zero]
  unfold popVar at hs ⊢
  simp_rw [hc]
  have : ∑ i ∈ range N, center N X i j / s j * (center N X i j / s j) =
      (∑ i ∈ range N, center N X i j * center N X i j) / s j ^ 2 := by
    rw [Finset.sum_div]
    apply Finset.sum_congr rfl; intro i _; field_simp
  rw [this, hs]
  have hne : (∑ i ∈ range N, center N X i j * center N X i j) / ↑N ≠ 0 := by
    rw [← hs]; exact pow_ne_zero 2 h0
  have hS : (∑ i ∈ range N, center N X i j * center N X i j) ≠ 0 := by
    intro h; apply hne; rw [h]; simp
  field_simp
  apply div_self
  intro h; apply hS; rw [← h]
  apply Finset.sum_congr rfl; intro i _; ring

/-! ## The same commutation theorems for 2-D data (row-major flat grid index `a·m₂ + b`) -/

/-- Evaluating on a tensor-product basis built by `np.kron` + `reshape`:
`to_grid` at `(a, b)` is `Σ_{k₁,k₂} c[k₁·K₂+k₂] · A[k₁,a] · B[k₂,b]`. -/
theorem to_grid_tensor (K₁ K₂ m₂ : ℕ) (A B c : ℕ → ℕ → ℚ) (i a b : ℕ) (hb : b < m₂) :
    toGrid (K₁ * K₂) c (kron K₂ m₂ A B) i (a * m₂ + b) =
      ∑ k₁ ∈ range K₁, ∑ k₂ ∈ range K₂, c i (k₁ * K₂ + k₂) * (A k₁ a * B k₂ b) := by
  unfold toGrid
  have hrw : ∀ r ∈ range (K₁ * K₂), c i r * kron K₂ m₂ A B r (a * m₂ + b) =
      (fun k₁ k₂ => c i (k₁ * K₂ + k₂) * (A k₁ a * B k₂ b)) (r / K₂) (r % K₂) := by
    intro r hr
    rw [mem_range] at hr
    have hK : 0 < K₂ := by
      rcases Nat.eq_zero_or_pos K₂ with h | h
      · subst h; simp at hr
      · exact h
    have hr' : (r / K₂) * K₂ + r % K₂ = r := by rw [Nat.mul_comm]; exact Nat.div_add_mod r K₂
    simp only [hr']
    unfold kron
    rw [(div_mod_of_lt hb).1, (div_mod_of_lt hb).2]
  rw [Finset.sum_congr rfl hrw,
    sum_range_mul_div_mod K₁ K₂ (fun k₁ k₂ => c i (k₁ * K₂ + k₂) * (A k₁ a * B k₂ b))]

/-- Mean and centring commute in 2-D as well (the theorems above hold for any flat grid
index; here they are read at the point `(a, b)`). -/
theorem mean_commutes_2d (N K m₂ : ℕ) (c Φ : ℕ → ℕ → ℚ) (i a b : ℕ) :
    toGrid K (meanCoef N c) Φ i (a * m₂ + b) = colMean N (toGrid K c Φ) (a * m₂ + b) :=
  mean_commutes N K c Φ i (a * m₂ + b)

theorem center_commutes_2d (N K m₂ : ℕ) (c Φ : ℕ → ℕ → ℚ) (i a b : ℕ) :
    toGrid K (center N c) Φ i (a * m₂ + b) = center N (toGrid K c Φ) i (a * m₂ + b) :=
  center_commutes N K c Φ i (a * m₂ + b)

/-- 2-D `Basis.inner_product` (product quadrature): the procedure = thresholded Gram matrix. -/
theorem basis_gram_impl_2d (m₁ m₂ : ℕ) (t₁ t₂ : ℕ → ℚ) (Φ : ℕ → ℕ → ℚ) (k l : ℕ) :
    basisGramImpl2 m₁ m₂ t₁ t₂ Φ k l = thr12 (basisGram2 m₁ m₂ t₁ t₂ Φ k l) := by
  have hsym : ∀ a b, basisGram2 m₁ m₂ t₁ t₂ Φ a b = basisGram2 m₁ m₂ t₁ t₂ Φ b a := by
    intro a b; unfold basisGram2 inner2; congr 1; funext p q; ring
  unfold basisGramImpl2
  by_cases h : k = l
  · subst h; simp
  · rcases Nat.lt_or_gt_of_ne h with hlt | hgt
    · have h1 : k ≤ l := hlt.le
      have h2 : ¬ l ≤ k := by omega
      simp [h, h1, h2]
    · have h1 : ¬ k ≤ l := by omega
      have h2 : l ≤ k := hgt.le
      simp [h, h1, h2, hsym l k]

/-- 2-D inner products and norms: `C G Cᵀ` with the 2-D Gram matrix of the basis equals the
product-quadrature inner products of the evaluated surfaces. -/
theorem inner_product_commutes_2d (K m₁ m₂ : ℕ) (t₁ t₂ : ℕ → ℚ) (c Φ : ℕ → ℕ → ℚ) (i l : ℕ) :
    innerBasis K (basisGram2 m₁ m₂ t₁ t₂ Φ) c i l =
      inner2 m₁ m₂ t₁ t₂ (fun a b => toGrid K c Φ i (a * m₂ + b))
        (fun a b => toGrid K c Φ l (a * m₂ + b)) := by
  rw [inner2_toGrid]; rfl

theorem norm_commutes_2d (K m₁ m₂ : ℕ) (t₁ t₂ : ℕ → ℚ) (c Φ : ℕ → ℕ → ℚ) (i : ℕ) :
    normSqBasis K (basisGram2 m₁ m₂ t₁ t₂ Φ) c i =
      inner2 m₁ m₂ t₁ t₂ (fun a b => toGrid K c Φ i (a * m₂ + b))
        (fun a b => toGrid K c Φ i (a * m₂ + b)) :=
  inner_product_commutes_2d K m₁ m₂ t₁ t₂ c Φ i i

/-- 2-D Gram matrix of the centred surfaces = `C G Cᵀ` of the centred coefficients. -/
theorem inner_product_centred_commutes_2d (N K m₁ m₂ : ℕ) (t₁ t₂ : ℕ → ℚ) (c Φ : ℕ → ℕ → ℚ)
    (i l : ℕ) :
    innerBasis K (basisGram2 m₁ m₂ t₁ t₂ Φ) (center N c) i l =
      inner2 m₁ m₂ t₁ t₂ (fun a b => center N (toGrid K c Φ) i (a * m₂ + b))
        (fun a b => center N (toGrid K c Φ) l (a * m₂ + b)) := by
  rw [inner_product_commutes_2d]
  simp_rw [toGrid_center N K c Φ]

/-! ## Tensor-product bases and the 2-D covariance representation -/

/-- `np.kron(A, B)[i*n₂ + j, a*m₂ + b] = A[i, a] * B[j, b]`; read through
`reshape(n₁n₂, m₁, m₂)` this is the entry `[i*n₂ + j, a, b]` of the tensor basis
(row-major), as `Basis.__init__` and `to_basis` build it. -/
theorem kron_index (n₂ m₂ : ℕ) (A B : ℕ → ℕ → ℚ) (i j a b : ℕ) (hj : j < n₂) (hb : b < m₂) :
    kron n₂ m₂ A B (i * n₂ + j) (a * m₂ + b) = A i a * B j b :=
  kron_apply n₂ m₂ A B i j a b hj hb

/-- Layout of the 2-D covariance basis (repaired code): entry `[k*K + l, a, a', b, b']`
of `np.kron(Φ, Φ).reshape(K², m₁, m₁, m₂, m₂)` is `Φ[k,a,b] * Φ[l,a',b']`, coherent
with the argvals `(t₁, t₁, t₂, t₂)`. -/
theorem cov_basis_2d_layout (K m₁ m₂ : ℕ) (Φ : ℕ → ℕ → ℕ → ℚ) (k l a a' b b' : ℕ)
    (hl : l < K) (ha : a < m₁) (ha' : a' < m₁) (hb : b < m₂) (hb' : b' < m₂) :
    covBasis2 K m₁ m₂ Φ (k * K + l) a a' b b' = Φ k a b * Φ l a' b' := by
  unfold covBasis2 kron3Flat lin5
  have e : ((((k * K + l) * m₁ + a) * m₁ + a') * m₂ + b) * m₂ + b'
      = ((k * K + l) * (m₁ * m₁) + (a * m₁ + a')) * (m₂ * m₂) + (b * m₂ + b') := by ring
  simp only [e]
  have hv := div_mod_of_lt (x := (k * K + l) * (m₁ * m₁) + (a * m₁ + a')) (mul_add_lt_mul hb hb')
  have hu := div_mod_of_lt (x := k * K + l) (mul_add_lt_mul ha ha')
  rw [hv.1, hv.2, hu.1, hu.2]
  rw [(div_mod_of_lt hl).1, (div_mod_of_lt hl).2, (div_mod_of_lt ha').1, (div_mod_of_lt ha').2,
    (div_mod_of_lt hb').1, (div_mod_of_lt hb').2]

/-- On a square grid the unrepaired layout `(K², *(2 * n_points))` is the same array. -/
theorem cov_basis_2d_old_eq_new_of_square (K m : ℕ) (Φ : ℕ → ℕ → ℕ → ℚ) (r a a' b b' : ℕ) :
    covBasis2Old K m m Φ r a a' b b' = covBasis2 K m m Φ r a a' b b' := rfl

/-- The unrepaired shape `(m₁, m₂, m₁, m₂)` is coherent with the argvals
`(t₁, t₁, t₂, t₂)` only on a square grid (otherwise the constructor raises `ValueError`). -/
theorem cov_basis_2d_old_coherent_iff (m₁ m₂ : ℕ) :
    [m₁, m₂, m₁, m₂] = [m₁, m₁, m₂, m₂] ↔ m₁ = m₂ := by
  constructor
  · intro h
    simp only [List.cons.injEq, true_and, and_true] at h
    exact h.1.symm
  · rintro rfl; rfl

/-- 2-D covariance: `covariance().to_grid()` at `[a, a', b, b']` is
`(1/n) Σ_i Xc_i(a,b) Xc_i(a',b')` of the evaluated surfaces. -/
theorem cov2_commutes (N K m₁ m₂ : ℕ) (c : ℕ → ℕ → ℚ) (Φ : ℕ → ℕ → ℕ → ℚ) (a a' b b' : ℕ)
    (ha : a < m₁) (ha' : a' < m₁) (hb : b < m₂) (hb' : b' < m₂) :
    covBasisGrid2 N K m₁ m₂ c Φ a a' b b' =
      covGrid2Spec N m₂ (toGrid K c (fun k p => Φ k (p / m₂) (p % m₂))) a a' b b' := by
  unfold covBasisGrid2 contractCov2
  have hrw : ∀ r ∈ range (K * K),
      covCoef N c (r / K) (r % K) * covBasis2 K m₁ m₂ Φ r a a' b b' =
      (fun k l => covCoef N c k l * (Φ k a b * Φ l a' b')) (r / K) (r % K) := by
    intro r hr
    rw [mem_range] at hr
    have hK : 0 < K := by
      rcases Nat.eq_zero_or_pos K with h | h
      · subst h; simp at hr
      · exact h
    have hlt : r % K < K := Nat.mod_lt _ hK
    have hr' : r = (r / K) * K + r % K := by
      rw [Nat.mul_comm]; exact (Nat.div_add_mod r K).symm
    have := cov_basis_2d_layout K m₁ m₂ Φ (r / K) (r % K) a a' b b' hlt ha ha' hb hb'
    rw [← hr'] at this
    rw [this]
  rw [Finset.sum_congr rfl hrw,
    sum_range_mul_div_mod K K (fun k l => covCoef N c k l * (Φ k a b * Φ l a' b'))]
  unfold covGrid2Spec covCoef
  simp_rw [← toGrid_center N K c]
  unfold toGrid
  simp only [(div_mod_of_lt hb).1, (div_mod_of_lt hb).2, (div_mod_of_lt hb').1, (div_mod_of_lt hb').2]
  simp_rw [div_mul_eq_mul_div, Finset.sum_mul]
  simp_rw [← Finset.sum_div]
  congr 1
  rw [Finset.sum_comm]
  rw [show (∑ y ∈ range K, ∑ x ∈ range K, ∑ i ∈ range N, center N c i x * center N c i y * (Φ x a b * Φ y a' b'))
      = ∑ y ∈ range K, ∑ i ∈ range N, ∑ x ∈ range K, center N c i x * center N c i y * (Φ x a b * Φ y a' b') from
      Finset.sum_congr rfl (fun y _ => Finset.sum_comm)]
  rw [Finset.sum_comm]
  apply Finset.sum_congr rfl; intro i _
  simp_rw [Finset.mul_sum]
  rw [Finset.sum_comm]
  apply Finset.sum_congr rfl; intro x _
  apply Finset.sum_congr rfl; intro y _
  ring

/-! ## to_basis ∘ to_grid = P-spline smoothing; exact recovery -/

/-- 1-D: evaluating the expansion `β` on the basis is the P-spline prediction `βᵀB`. -/
theorem to_basis_to_grid (K : ℕ) (B : ℕ → ℕ → ℚ) (β : ℕ → ℚ) (i j : ℕ) :
    toGrid K (fun _ k => β k) B i j = fitted K B β j := rfl

/-- 2-D: the coefficients `beta_hat.flatten()` on the basis
`np.kron(B₁, B₂).reshape(K₁K₂, m₁, m₂)` evaluate to the GLAM prediction `B₁ᵀ β B₂`. -/
theorem to_basis_to_grid_2d (K₁ K₂ m₂ : ℕ) (B₁ B₂ : ℕ → ℕ → ℚ) (β : ℕ → ℕ → ℚ) (i a b : ℕ)
    (hb : b < m₂) :
    toGrid (K₁ * K₂) (fun _ r => β (r / K₂) (r % K₂)) (kron K₂ m₂ B₁ B₂) i (a * m₂ + b) =
      fitted2 K₁ K₂ B₁ B₂ β a b := by
  unfold toGrid fitted2
  rw [← sum_range_mul_div_mod K₁ K₂ (fun k₁ k₂ => β k₁ k₂ * B₁ k₁ a * B₂ k₂ b)]
  apply Finset.sum_congr rfl
  intro r _
  unfold kron
  rw [(div_mod_of_lt hb).1, (div_mod_of_lt hb).2]
  ring

/-- With a non-singular normal matrix the fit is unique: `to_basis` and `smooth`, which
solve the same normal equations, produce the same coefficients hence the same curve. -/
theorem to_basis_eq_smooth (K : ℕ) (A : ℕ → ℕ → ℚ) (b β β' : ℕ → ℚ) (B : ℕ → ℕ → ℚ)
    (hA : NonSing K A) (h : IsFit K A b β) (h' : IsFit K A b β') (j : ℕ) :
    fitted K B β j = fitted K B β' j := by
  have hz : ∀ k, k < K → (fun k => β k - β' k) k = 0 := by
    apply hA
    intro k hk
    have := h k hk
    have := h' k hk
    simp only [mul_sub, Finset.sum_sub_distrib]
    linarith
  unfold fitted
  apply Finset.sum_congr rfl
  intro k hk
  have := hz k (mem_range.mp hk)
  simp only at this
  rw [sub_eq_zero.mp this]

/-- `to_basis` of IRREGULAR data: the NaN encoding fits with zero weights on the missing
cells, the ragged encoding fits on the observed points; both solve the same normal
equations `(B W Bᵀ + λP) β = B W y` (`zero_weight_equals_dropping`), which are also those of
`smooth(method="PS")`.  With a non-singular normal matrix the expansion therefore
evaluates to the P-spline smooth, whichever the encoding. -/
theorem to_basis_irregular_eq_smooth (K : ℕ) (Bf : ℕ → ℚ → ℚ) (g : List ℚ) (r : FDA.Irr.Row)
    (lam : ℚ) (P Bq : ℕ → ℕ → ℚ) (β β' : ℕ → ℚ)
    (hA : NonSing K (fun k l => FDA.Irr.psMatNaN Bf (FDA.Irr.encNaN g r) k l + lam * P k l))
    (h : IsFit K (fun k l => FDA.Irr.psMatNaN Bf (FDA.Irr.encNaN g r) k l + lam * P k l)
      (FDA.Irr.psRhsNaN Bf (FDA.Irr.encNaN g r)) β)
    (h' : IsFit K (fun k l => FDA.Irr.psMatRag Bf (FDA.Irr.encRagged g r) k l + lam * P k l)
      (FDA.Irr.psRhsRag Bf (FDA.Irr.encRagged g r)) β') (j : ℕ) :
    toGrid K (fun _ k => β k) Bq 0 j = fitted K Bq β' j := by
  rw [to_basis_to_grid]
  apply to_basis_eq_smooth K _ _ β β' Bq hA h
  intro k hk
  have := h' k hk
  simp only [← FDA.Irr.ps_mat_enc Bf g r, ← FDA.Irr.ps_rhs_enc Bf g r] at this
  exact this

/-- Exact recovery: zero penalty, unit weights, a curve `y = γᵀB` of the spline space,
non-singular `BBᵀ`: the fit returns the coefficients `γ` and the curve itself. -/
theorem exact_recovery (K m : ℕ) (B P : ℕ → ℕ → ℚ) (γ β y : ℕ → ℚ)
    (hy : ∀ j, j < m → y j = fitted K B γ j)
    (hA : NonSing K (normalMat m B (fun _ => 1) 0 P))
    (hfit : IsFit K (normalMat m B (fun _ => 1) 0 P) (normalRhs m B (fun _ => 1) y) β) :
    (∀ k, k < K → β k = γ k) ∧ ∀ j, j < m → fitted K B β j = y j := by
  have hγ : IsFit K (normalMat m B (fun _ => 1) 0 P) (normalRhs m B (fun _ => 1) y) γ := by
    intro k _
    unfold normalMat normalRhs
    simp only [zero_mul, add_zero, mul_one]
    simp_rw [Finset.sum_mul]
    rw [Finset.sum_comm]
    apply Finset.sum_congr rfl
    intro j hj
    rw [hy j (mem_range.mp hj)]
    unfold fitted
    rw [Finset.mul_sum]
    apply Finset.sum_congr rfl; intro l _; ring
  have hz : ∀ k, k < K → (fun k => β k - γ k) k = 0 := by
    apply hA
    intro k hk
    have h1 := hfit k hk
    have h2 := hγ k hk
    simp only [mul_sub, Finset.sum_sub_distrib]
    linarith
  have hβ : ∀ k, k < K → β k = γ k := fun k hk => sub_eq_zero.mp (hz k hk)
  refine ⟨hβ, ?_⟩
  intro j hj
  rw [hy j hj]
  unfold fitted
  apply Finset.sum_congr rfl
  intro k hk
  rw [hβ k (mem_range.mp hk)]

/-! ## Long format -/

/-- Dense long format: the table the code builds row by row IS "for every observation,
for every point of the product grid (row-major), the value at that point"; it has
`n · Π m_k` rows, lists every (observation, point) and lists it once. -/
theorem to_long_bijection (n : ℕ) (shape : List ℕ) :
    toLongDense n shape = toLongDenseSpec n shape ∧
    (toLongDense n shape).length = n * shape.prod ∧
    (∀ i pt, i < n → List.Forall₂ (· < ·) pt shape →
        (i, pt, i * shape.prod + lin shape pt) ∈ toLongDense n shape) ∧
    ((toLongDense n shape).map fun r => (r.1, r.2.1)).Nodup := by
  refine ⟨toLongDense_eq_spec n shape, ?_, ?_, ?_⟩
  · have := congrArg List.length (toLongDense_positions n shape)
    simpa using this
  · intro i pt hi hpt
    rw [toLongDense_eq_spec]
    unfold toLongDenseSpec
    simp only [List.mem_flatMap, List.mem_range, List.mem_map]
    exact ⟨i, hi, pt, (mem_product_iff shape pt).mpr hpt, rfl⟩
  · -- the key (id, point) determines the flat position, and positions are `range (n·M)`
    have hpos := toLongDense_positions n shape
    have hkey : (toLongDense n shape).map (fun r => r.2.2) =
        ((toLongDense n shape).map fun r => (r.1, r.2.1)).map
          (fun q => q.1 * shape.prod + lin shape q.2) := by
      rw [toLongDense_eq_spec]
      unfold toLongDenseSpec
      simp only [List.map_flatMap, List.map_map]
      rfl
    rw [hkey] at hpos
    have : (((toLongDense n shape).map fun r => (r.1, r.2.1)).map
        (fun q => q.1 * shape.prod + lin shape q.2)).Nodup := by
      rw [hpos]; exact List.nodup_range
    exact List.Nodup.of_map _ this

/-- Irregular long format: a row `(id, point, value)` is listed iff the cell is observed
(not NaN) in that observation … -/
theorem to_long_irregular_mem (obs : List (ℕ × Obs)) (lab : ℕ) (pt : List ℕ) (y : ℚ) :
    (lab, pt, y) ∈ toLongIrr obs ↔
      ∃ o, (lab, o) ∈ obs ∧ (pt, some y) ∈ (product o.shape).zip o.vals := by
  unfold toLongIrr
  simp only [List.mem_flatMap, List.mem_filterMap, Prod.exists]
  constructor
  · rintro ⟨lab', o, ho, pt', v, hm, h⟩
    cases v with
    | none => simp at h
    | some y' =>
      simp only [Option.map_some, Option.some.injEq, Prod.mk.injEq] at h
      obtain ⟨rfl, rfl, rfl⟩ := h
      exact ⟨o, ho, hm⟩
  · rintro ⟨o, ho, hm⟩
    exact ⟨lab, o, ho, pt, some y, hm, rfl⟩

/-- … and the table has exactly one row per observed cell (`n·Πm_k` minus the missing cells). -/
theorem to_long_irregular_length (obs : List (ℕ × Obs)) :
    (toLongIrr obs).length =
      (obs.map fun p => ((product p.2.shape).zip p.2.vals).countP (fun q => q.2.isSome)).sum := by
  unfold toLongIrr
  induction obs with
  | nil => rfl
  | cons p obs ih =>
    obtain ⟨lab, o⟩ := p
    simp only [List.flatMap_cons, List.length_append, List.map_cons, List.sum_cons]
    rw [ih]
    congr 1
    exact length_filterMap_some (fun pt y => (lab, pt, y)) _

/-- Open finding (ids are positions): with consecutive labels `0, 1, …` the table of the
tree with the label-agnostic iterator is the specified one … -/
theorem to_long_ids_partial (obs : List (ℕ × Obs))
    (h : obs.map Prod.fst = List.range obs.length) : toLongIrrImpl obs = toLongIrr obs := by
  unfold toLongIrrImpl
  congr 1
  unfold relabel
  apply List.ext_getElem
  · simp
  · intro i h1 h2
    have hi : i < obs.length := by simpa using h2
    have : (obs.map Prod.fst)[i]'(by simpa using hi) = i := by
      simp only [h, List.getElem_range]
    simp only [List.getElem_map] at this
    simp only [List.getElem_map, List.getElem_zipIdx, Nat.zero_add]
    exact Prod.ext this.symm rfl

/-- … with other labels (a sub-selection `fdata[1:3]`, labels 1, 2) it is not. -/
theorem to_long_ids_counterexample :
    toLongIrrImpl [(1, ⟨[1], [some 5]⟩), (2, ⟨[1], [some 7]⟩)] ≠
      toLongIrr [(1, ⟨[1], [some 5]⟩), (2, ⟨[1], [some 7]⟩)] := by
  decide

/-- Open finding (2-D rescale/standardize): `np.diag` rejects the squeezed 4-D covariance
array of 2-D data, and accepts the 2-D one of 1-D data. -/
theorem np_diag_rejects_4d (m₁ m₂ : ℕ) : npDiagShape [m₁, m₁, m₂, m₂] = none := rfl

theorem np_diag_accepts_2d (m : ℕ) : npDiagShape [m, m] = some [m] := by
  simp [npDiagShape]

/-- What 2-D `rescale()` should return (and returns with the proposed repair): the integral
of the pointwise population variance of the evaluated surfaces. -/
theorem rescale_weight_2d_spec (N K m₁ m₂ : ℕ) (t₁ t₂ : ℕ → ℚ) (c : ℕ → ℕ → ℚ)
    (Φ : ℕ → ℕ → ℕ → ℚ) (h₁ : 2 ≤ m₁) (h₂ : 2 ≤ m₂) :
    rescaleWeightBasis2 N K m₁ m₂ t₁ t₂ c Φ =
      ∑ a ∈ range m₁, ∑ b ∈ range m₂, trapzW m₁ t₁ a * trapzW m₂ t₂ b *
        popVar N (toGrid K c (fun k p => Φ k (p / m₂) (p % m₂))) (a * m₂ + b) := by
  unfold rescaleWeightBasis2 rescaleWeight2 integrate2
  rw [FDA.trapz_eq_weights m₂ t₂ _ h₂]
  simp_rw [FDA.trapz_eq_weights m₁ t₁ _ h₁, Finset.mul_sum]
  rw [Finset.sum_comm]
  apply Finset.sum_congr rfl; intro a ha
  apply Finset.sum_congr rfl; intro b hb
  rw [cov2_commutes N K m₁ m₂ c Φ a a b b (mem_range.mp ha) (mem_range.mp ha) (mem_range.mp hb)
    (mem_range.mp hb)]
  unfold covGrid2Spec popVar
  ring

/-! ## CSV loading -/

/-- Integer column labels are the abscissae … -/
theorem read_csv_abscissae_int (zs : List Int) :
    abscissae (zs.map Header.int) = zs := by
  unfold abscissae
  rw [mapM_toInt_int]

/-- … otherwise (one label that is not an integer suffices) the column positions. -/
theorem read_csv_abscissae_positions (hs : List Header) (h : Header.other ∈ hs) :
    abscissae hs = (List.range hs.length).map Int.ofNat := by
  unfold abscissae
  rw [mapM_toInt_other hs h]

/-- There is one abscissa per column in either case. -/
theorem read_csv_abscissae_length (hs : List Header) : (abscissae hs).length = hs.length := by
  unfold abscissae
  cases h : hs.mapM Header.toInt? with
  | none => simp
  | some zs => exact mapM_toInt_length hs zs h

/-- Dense iff no cell is missing; then the stored numbers are returned as they are. -/
theorem read_csv_dense (hs : List Header) (cells : List (List (Option ℚ)))
    (h : complete cells = true) :
    readCsv hs cells = .dense (abscissae hs) (cells.map fun row => row.filterMap id) ∧
    ∀ row ∈ cells, (row.filterMap id).map some = row := by
  refine ⟨by simp [readCsv, h], ?_⟩
  intro row hrow
  unfold complete at h
  rw [List.all_eq_true] at h
  have hr := h row hrow
  rw [List.all_eq_true] at hr
  clear h hrow
  induction row with
  | nil => rfl
  | cons v row ih =>
    have hv := hr v (List.mem_cons_self)
    cases v with
    | none => simp at hv
    | some y =>
      have ih' := ih (fun x hx => hr x (List.mem_cons_of_mem _ hx))
      show some y :: List.map some (List.filterMap id row) = some y :: row
      rw [ih']

/-- Irregular iff some cell is missing; every row keeps exactly its non-missing cells,
each at the abscissa of its column, in column order. -/
theorem read_csv_irregular (hs : List Header) (cells : List (List (Option ℚ)))
    (h : complete cells = false) :
    readCsv hs cells = .irregular (cells.map fun row => ragged (abscissae hs) row) ∧
    ∀ row x y, (x, y) ∈ ragged (abscissae hs) row ↔ (x, some y) ∈ (abscissae hs).zip row := by
  refine ⟨by simp [readCsv, h], ?_⟩
  intro row x y
  exact mem_ragged _ row x y

theorem read_csv_dense_iff (hs : List Header) (cells : List (List (Option ℚ))) :
    (∃ a v, readCsv hs cells = .dense a v) ↔ complete cells = true := by
  constructor
  · rintro ⟨a, v, h⟩
    by_contra hc
    have hc' : complete cells = false := by simpa using hc
    rw [(read_csv_irregular hs cells hc').1] at h
    cases h
  · intro h
    exact ⟨_, _, (read_csv_dense hs cells h).1⟩

/-- Translator tie: the label rule re-read from `FDApy/misc/loader.py` on every run
(`Generated/CsvRule.lean`: integer labels, else `np.arange(start, n, step)`; dense iff no
missing cell) IS the rule of the model all the CSV theorems are about. -/
theorem read_csv_rule_matches_source (hs : List Header) :
    FDA.Generated.CsvRule.abscissae hs = abscissae hs ∧
    FDA.Generated.CsvRule.denseWhenComplete = true := by
  refine ⟨?_, rfl⟩
  unfold FDA.Generated.CsvRule.abscissae abscissae
  cases hs.mapM Header.toInt? with
  | some zs => rfl
  | none =>
    simp only [FDA.Generated.CsvRule.fallbackStart, FDA.Generated.CsvRule.fallbackStep]
    apply List.map_congr_left
    intro j _
    simp

/-- Write then read is the identity on dense data: integer abscissae and all the stored
numbers come back, as a dense dataset. -/
theorem read_csv_write_dense (args : List Int) (vals : List (List ℚ)) :
    readCsv (toCsvDense args vals).1 (toCsvDense args vals).2 = .dense args vals := by
  have hc : complete (vals.map fun row => row.map some) = true := by
    unfold complete
    simp [List.all_eq_true]
  unfold toCsvDense
  simp only
  rw [(read_csv_dense _ _ hc).1, read_csv_abscissae_int]
  congr 1
  simp only [List.map_map]
  conv_rhs => rw [← List.map_id vals]
  apply List.map_congr_left
  intro row _
  simp only [Function.comp, id]
  induction row with
  | nil => rfl
  | cons x row ih => simp

/-- Write then read is the identity on irregular data: distinct integer columns `a`, every
observation sampled at a sub-sequence of them, at least one observation not sampled
everywhere (so the table has an empty cell): every `(abscissa, value)` pair comes back,
nothing else. -/
theorem read_csv_write_irregular (a : List Int) (rows : List (List (Int × ℚ))) (hnd : a.Nodup)
    (hsub : ∀ row ∈ rows, (row.map Prod.fst).Sublist a)
    (hmiss : ∃ row ∈ rows, row.length < a.length) :
    readCsv (toCsvIrr a rows).1 (toCsvIrr a rows).2 = .irregular rows := by
  have hc : complete (rows.map (unragged a)) = false := by
    by_contra hcon
    have hcon' : complete (rows.map (unragged a)) = true := by simpa using hcon
    obtain ⟨row, hrow, hlt⟩ := hmiss
    unfold complete at hcon'
    rw [List.all_eq_true] at hcon'
    have h1 := hcon' (unragged a row) (List.mem_map.mpr ⟨row, hrow, rfl⟩)
    rw [List.all_eq_true] at h1
    have h2 := ragged_length_of_all_some a (unragged a row) (by simp [unragged]) h1
    rw [ragged_unragged a row hnd (hsub row hrow)] at h2
    omega
  unfold toCsvIrr
  simp only
  rw [(read_csv_irregular _ _ hc).1, read_csv_abscissae_int]
  congr 1
  simp only [List.map_map]
  conv_rhs => rw [← List.map_id rows]
  apply List.map_congr_left
  intro row hrow
  exact ragged_unragged a row hnd (hsub row hrow)

/-! ## Translator tie: the coefficient-space formulas re-read from the source -/

/-- The formulas by which `BasisFunctionalData` computes in coefficient space, as
`harness/c14_translate.py` reads them off the source on every run (`np.einsum` subscripts of
`to_grid`; `np.mean(·, axis=0)`; the subtraction of `center`; `coefficients @ G @ coefficients.T`
with its transposes; `centred.T @ centred / n_obs`; `np.diag` and the exponent of `norm`; the
exact test `weights == 0.0` and the square root of `rescale`; that `normalize` hands all its
keywords to `norm`), ARE the model's definitions all the
commutation theorems above are about. -/
theorem basis_formulas_match_source (N K : ℕ) (G c Φ : ℕ → ℕ → ℚ) :
    (∀ i j, FDA.Generated.BasisFormulas.toGridSrc N K c Φ i j = toGrid K c Φ i j) ∧
    (∀ i k, FDA.Generated.BasisFormulas.meanSrc N K c i k = meanCoef N c i k) ∧
    (∀ i k, FDA.Generated.BasisFormulas.centerSrc N K c i k = center N c i k) ∧
    (∀ i l, FDA.Generated.BasisFormulas.innerSrc N K G c i l = innerBasis K G c i l) ∧
    (∀ k l, FDA.Generated.BasisFormulas.covSrc N K c k l = covCoef N c k l) ∧
    (∀ i, FDA.Generated.BasisFormulas.normSqSrc N K G c i = normSqBasis K G c i) ∧
    FDA.Generated.BasisFormulas.normPowerSrc = normPower ∧
    (∀ w, FDA.Generated.BasisFormulas.rescaleReestimatesSrc w = rescaleReestimates w) ∧
    FDA.Generated.BasisFormulas.rescalePowerSrc = rescalePower ∧
    FDA.Generated.BasisFormulas.normalizeForwardsKeywords = normalizeForwardsKeywords := by
  have hinner : ∀ i l, FDA.Generated.BasisFormulas.innerSrc N K G c i l = innerBasis K G c i l := by
    intro i l
    simp only [FDA.Generated.BasisFormulas.innerSrc, FDA.NpM.matmul, FDA.NpM.transpose, innerBasis,
      Finset.sum_mul, Finset.mul_sum]
    first
      | (apply Finset.sum_congr rfl; intro a _; apply Finset.sum_congr rfl; intro b _; ring1)
      | (rw [Finset.sum_comm]
         first
           | done
           | (apply Finset.sum_congr rfl; intro a _; apply Finset.sum_congr rfl; intro b _; ring1))
  refine ⟨?_, ?_, ?_, hinner, ?_, ?_, ?_, ?_, ?_, rfl⟩
  · intro i j; rfl
  · intro i k; rfl
  · intro i k; rfl
  · intro k l
    simp only [FDA.Generated.BasisFormulas.covSrc, FDA.NpM.divc, FDA.NpM.matmul, FDA.NpM.transpose, covCoef]
    rfl
  · intro i
    simp only [FDA.Generated.BasisFormulas.normSqSrc, FDA.NpM.diag, normSqBasis]
    exact hinner i i
  · norm_num [FDA.Generated.BasisFormulas.normPowerSrc, normPower]
  · intro w; rfl
  · norm_num [FDA.Generated.BasisFormulas.rescalePowerSrc, rescalePower]

/-! ## Non-vacuity -/

/-- `NonSing` and `IsFit` are satisfiable together (identity normal matrix), and the
hypothesis of `cov_commutes`, `kron_index`, `cov_basis_2d_layout` are plain bounds. -/
example : NonSing 2 (fun k l => if k = l then 1 else 0) ∧
    IsFit 2 (fun k l => if k = l then 1 else 0) (fun k => (k : ℚ) + 3) (fun k => (k : ℚ) + 3) := by
  constructor
  · intro v hv k hk
    have := hv k hk
    obtain rfl | rfl : k = 0 ∨ k = 1 := by omega
    · simpa [Finset.sum_range_succ] using this
    · simpa [Finset.sum_range_succ] using this
  · intro k hk
    obtain rfl | rfl : k = 0 ∨ k = 1 := by omega
    · simp
    · simp

/-- `exact_recovery` on a concrete spline-like space: `B = [[1,1,1],[0,1,2]]`, `γ = (2, 3)`. -/
example : (∀ j : ℕ, j < 3 → (fun j : ℕ => (2 : ℚ) + 3 * (j : ℚ)) j =
      fitted 2 (fun k j => if k = 0 then 1 else (j : ℚ)) (fun k => if k = 0 then 2 else 3) j) := by
  intro j hj
  obtain rfl | rfl | rfl : j = 0 ∨ j = 1 ∨ j = 2 := by omega
  all_goals norm_num [fitted, Finset.sum_range_succ]

/-- `inner_product_commutes_partial`: centred coefficients exist and are not all zero. -/
example : ∀ k, k < 1 → colMean 2 (fun i _ => if i = 0 then (1 : ℚ) else -1) k = 0 := by
  intro k _
  norm_num [colMean, Finset.sum_range_succ]

/-- `basis_gram_impl_exact`: a Gram entry that is neither zero nor tiny. -/
example : basisGram 2 (fun j => (j : ℚ)) (fun _ _ => 1) 0 0 = 1 := by
  norm_num [basisGram, inner, trapz, Finset.sum_range_succ]

/-- `read_csv_dense` / `read_csv_irregular`: both classes of tables exist. -/
example : readCsv [.int 3, .int 7] [[some 1, some 2]] = .dense [3, 7] [[1, 2]] := by decide
example : readCsv [.int 3, .other] [[some 1, none], [none, some 5]] =
    .irregular [[(0, 1)], [(1, 5)]] := by decide

/-- `standardize_unit_variance`: a deviation `s` with `s² = ` variance `≠ 0` exists. -/
example : ((1 : ℚ) / 2) ^ 2 = popVar 2 (fun i _ => (i : ℚ)) 0 ∧ ((1 : ℚ) / 2) ≠ 0 := by
  norm_num [popVar, center, colMean, Finset.sum_range_succ]

/-- `read_csv_write_irregular`: its hypotheses hold for a table with an empty cell, and the
round trip is checked on it by evaluation. -/
example : readCsv (toCsvIrr [1, 2] [[(1, 5)], [(1, 3), (2, 4)]]).1 (toCsvIrr [1, 2] [[(1, 5)], [(1, 3), (2, 4)]]).2 =
    .irregular [[(1, 5)], [(1, 3), (2, 4)]] := by decide

/-- `to_grid_tensor` / `inner_product_commutes_2d`: plain bounds; a tensor entry by evaluation. -/
example : kron 2 3 (fun i a => (i + 2 * a : ℚ)) (fun j b => (j * b + 1 : ℚ)) (1 * 2 + 1) (2 * 3 + 1) = 5 * 2 := by
  norm_num [kron]

end C14
