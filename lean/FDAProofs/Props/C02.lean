/-
C02 — UFPCA eigenpairs solve the discretised covariance / Gram eigenproblem.

The theorems are about the definitions of `FDAModel/FPCA.lean` that the driver
executes (`symMat`, `backTransform`, `mercer`, `gramShift`, `gramEigfun`,
`gramEigval`), for every number of grid points / curves / components and over
every field `F` (ordered where signs matter): at `F = ℝ` the square roots
`s_j = √w_j`, `r_k = √l_k` the code takes exist, at `F = ℚ` the same definitions
are run by the driver.  The eigen-solver is a parameter: its contract
(`A u_k = λ_k u_k`, orthonormal vectors) appears as hypotheses; the oracle
measures how well the captured LAPACK output meets it.
Only property theorems and non-vacuity examples live here.
-/
import FDAProofs.Lemmas.FPCA
import FDAProofs.Lemmas.SqrtQ
import FDAModel.Generated.UfpcaFormulas
import Mathlib.Tactic.NormNum
import Mathlib.Tactic.Positivity
import Mathlib.Analysis.SpecialFunctions.Sqrt

namespace C02
open FDA FDA.FPCA Finset

section field
variable {F : Type} [Field F]

/-- Covariance route, orthonormality: if the retained solver vectors `a`, `b` have
Euclidean product `δ` (`1` for `a = b`, `0` otherwise — the solver contract), the
back-transformed eigenfunctions have `w`-inner product `δ`. -/
theorem orthonormal_w (m : ℕ) (s w : ℕ → F) (U : ℕ → ℕ → F)
    (hs : ∀ j < m, s j * s j = w j) (hpos : ∀ j < m, s j ≠ 0) (a b : ℕ) (δ : F)
    (hU : ∑ j ∈ range m, U a j * U b j = δ) :
    innerWF m w (backTransform s U a) (backTransform s U b) = δ := by
  rw [← hU]
  unfold innerWF backTransform
  apply Finset.sum_congr rfl
  intro j hj
  have hj := mem_range.1 hj
  rw [← hs j hj]
  have := hpos j hj
  field_simp

/-- Covariance route, integral eigen-equation: `(S C S) u = λ u` implies
`Σ_j w_j C(t_i,t_j) φ(t_j) = λ φ(t_i)` at every grid point. -/
theorem eigen_equation (m : ℕ) (s w : ℕ → F) (C : ℕ → ℕ → F) (U : ℕ → ℕ → F) (k : ℕ) (lam : F)
    (hs : ∀ j < m, s j * s j = w j) (hpos : ∀ j < m, s j ≠ 0)
    (hu : ∀ i < m, ∑ j ∈ range m, symMat s C i j * U k j = lam * U k i) :
    ∀ i < m, innerWF m w (C i) (backTransform s U k) = lam * backTransform s U k i := by
  intro i hi
  have h := hu i hi
  unfold innerWF backTransform
  have e : ∑ j ∈ range m, w j * (C i j * (U k j / s j)) = (∑ j ∈ range m, symMat s C i j * U k j) / s i := by
    rw [Finset.sum_div]
    apply Finset.sum_congr rfl
    intro j hj
    have hj := mem_range.1 hj
    rw [← hs j hj]
    unfold symMat
    have := hpos j hj
    have := hpos i hi
    field_simp
  rw [e, h]
  ring

/-- Solver-contract lemma: eigenvectors of a *symmetric* matrix for *distinct*
eigenvalues are orthogonal — so the orthogonality hypothesis of `orthonormal_w` is
met by any solver honouring `A u = λ u`, except inside a repeated eigenvalue
(the domain of the open finding `C02-tied-eigenvalues`). -/
theorem orthogonal_of_distinct (m : ℕ) (A : ℕ → ℕ → F) (u v : ℕ → F) (lam mu : F)
    (hsym : ∀ i < m, ∀ j < m, A i j = A j i)
    (hu : ∀ i < m, ∑ j ∈ range m, A i j * u j = lam * u i)
    (hv : ∀ i < m, ∑ j ∈ range m, A i j * v j = mu * v i)
    (hne : lam ≠ mu) : ∑ i ∈ range m, u i * v i = 0 := by
  have h1 : lam * ∑ i ∈ range m, u i * v i = ∑ i ∈ range m, ∑ j ∈ range m, A i j * u j * v i := by
    rw [Finset.mul_sum]
    apply Finset.sum_congr rfl; intro i hi
    rw [← Finset.sum_mul, hu i (mem_range.1 hi)]; ring
  have h2 : mu * ∑ i ∈ range m, u i * v i = ∑ i ∈ range m, ∑ j ∈ range m, A i j * u j * v i := by
    rw [Finset.sum_comm, Finset.mul_sum]
    apply Finset.sum_congr rfl; intro j hj
    have := hv j (mem_range.1 hj)
    calc mu * (u j * v j) = u j * (mu * v j) := by ring
      _ = u j * ∑ i ∈ range m, A j i * v i := by rw [this]
      _ = ∑ i ∈ range m, A i j * u j * v i := by
          rw [Finset.mul_sum]
          apply Finset.sum_congr rfl; intro i hi
          rw [hsym j (mem_range.1 hj) i (mem_range.1 hi)]; ring
  have : (lam - mu) * ∑ i ∈ range m, u i * v i = 0 := by rw [sub_mul, h1, h2, sub_self]
  rcases mul_eq_zero.1 this with h | h
  · exact absurd (sub_eq_zero.1 h) hne
  · exact h

/-- The matrix handed to the solver is symmetric (so the contract lemma applies). -/
theorem symMat_symm (N : ℕ) (s : ℕ → F) (Xc : ℕ → ℕ → F) (i j : ℕ) :
    symMat s (covMat N Xc) i j = symMat s (covMat N Xc) j i := by
  unfold symMat covMat
  have : ∑ a ∈ range N, Xc a i * Xc a j = ∑ a ∈ range N, Xc a j * Xc a i := by
    apply Finset.sum_congr rfl; intro a _; ring
  rw [this]; ring

/-- Mercer identity with all components kept: a complete orthonormal eigen-system of
`S C S` reproduces the covariance surface, `Σ_k λ_k φ_k(t_i) φ_k(t_j) = C(t_i,t_j)`. -/
theorem mercer_full (m : ℕ) (s : ℕ → F) (C : ℕ → ℕ → F) (U : ℕ → ℕ → F) (lam : ℕ → F)
    (hpos : ∀ j < m, s j ≠ 0)
    (hrows : ∀ a < m, ∀ b < m, ∑ j ∈ range m, U a j * U b j = if a = b then 1 else 0)
    (heig : ∀ k < m, ∀ i < m, ∑ j ∈ range m, symMat s C i j * U k j = lam k * U k i) :
    ∀ i < m, ∀ j < m, mercer m lam (backTransform s U) i j = C i j := by
  intro i hi j hj
  have hA := spectral_of_complete m (symMat s C) U lam hrows heig i hi j hj
  have hsi := hpos i hi
  have hsj := hpos j hj
  unfold mercer backTransform
  have : ∑ k ∈ range m, U k i / s i * lam k * (U k j / s j)
      = (∑ k ∈ range m, lam k * U k i * U k j) / (s i * s j) := by
    rw [Finset.sum_div]
    apply Finset.sum_congr rfl; intro k _
    field_simp
  rw [this, ← hA]
  unfold symMat
  field_simp

/-- Gram route: the eigenfunctions are the stated combinations of the centred curves,
`φ_k = Σ_i (v_k(i)/√l_k) · Xc_i`. -/
theorem gram_route_combination (N : ℕ) (Xc V : ℕ → ℕ → F) (r : ℕ → F) (k j : ℕ) :
    gramEigfun N Xc V r k j = ∑ i ∈ range N, (V k i / r k) * Xc i j := by
  unfold gramEigfun
  rw [Finset.sum_div]
  apply Finset.sum_congr rfl; intro i _; ring

/-- Gram route, inner products of the eigenfunctions: with `(G − σ²I) v_l = l'_l v_l`,
`⟨φ_k, φ_l⟩_w = (l'_l + σ²)·(v_k·v_l)/(r_k r_l)`. -/
theorem gram_route_inner (m N : ℕ) (w : ℕ → F) (Xc V : ℕ → ℕ → F) (r l' : ℕ → F) (σ2 : F) (k l : ℕ)
    (_hrk : r k ≠ 0) (_hrl : r l ≠ 0)
    (heig : ∀ i < N, ∑ i' ∈ range N, gramShift (gramW m w Xc) σ2 i i' * V l i' = l' l * V l i) :
    innerWF m w (gramEigfun N Xc V r k) (gramEigfun N Xc V r l) =
      (l' l + σ2) * (∑ i ∈ range N, V k i * V l i) / (r k * r l) := by
  have hp := gram_proj m N w Xc V r l' σ2 l heig
  rw [innerWF_comm, innerWF_gramEigfun]
  have : ∑ i ∈ range N, innerWF m w (gramEigfun N Xc V r l) (Xc i) * V k i
      = (l' l + σ2) * (∑ i ∈ range N, V k i * V l i) / r l := by
    rw [Finset.mul_sum, Finset.sum_div]
    apply Finset.sum_congr rfl; intro i hi
    rw [innerWF_comm, hp i (mem_range.1 hi)]; ring
  rw [this, div_div, mul_comm (r l) (r k)]

/-- Gram route: the eigenfunctions are **mutually orthogonal** (any noise variance). -/
theorem gram_route_orthogonal (m N : ℕ) (w : ℕ → F) (Xc V : ℕ → ℕ → F) (r l' : ℕ → F) (σ2 : F) (k l : ℕ)
    (hrk : r k ≠ 0) (hrl : r l ≠ 0)
    (heig : ∀ i < N, ∑ i' ∈ range N, gramShift (gramW m w Xc) σ2 i i' * V l i' = l' l * V l i)
    (horth : ∑ i ∈ range N, V k i * V l i = 0) :
    innerWF m w (gramEigfun N Xc V r k) (gramEigfun N Xc V r l) = 0 := by
  rw [gram_route_inner m N w Xc V r l' σ2 k l hrk hrl heig, horth]
  simp

/-- Gram route, norm: `‖φ_k‖²_w = (l'_k + σ²)/l'_k`; in particular `1` when no noise
variance is subtracted (`σ² = 0`). -/
theorem gram_route_norm (m N : ℕ) (w : ℕ → F) (Xc V : ℕ → ℕ → F) (r l' : ℕ → F) (σ2 : F) (k : ℕ)
    (heig : ∀ i < N, ∑ i' ∈ range N, gramShift (gramW m w Xc) σ2 i i' * V k i' = l' k * V k i)
    (hnorm : ∑ i ∈ range N, V k i * V k i = 1) (hr : r k * r k = l' k) (hl : l' k ≠ 0) :
    innerWF m w (gramEigfun N Xc V r k) (gramEigfun N Xc V r k) = (l' k + σ2) / l' k := by
  have hrk : r k ≠ 0 := by
    intro h0; rw [h0, mul_zero] at hr; exact hl hr.symm
  rw [gram_route_inner m N w Xc V r l' σ2 k k hrk hrk heig, hnorm, hr, mul_one]

theorem gram_route_norm_noiseless (m N : ℕ) (w : ℕ → F) (Xc V : ℕ → ℕ → F) (r l' : ℕ → F) (k : ℕ)
    (heig : ∀ i < N, ∑ i' ∈ range N, gramShift (gramW m w Xc) 0 i i' * V k i' = l' k * V k i)
    (hnorm : ∑ i ∈ range N, V k i * V k i = 1) (hr : r k * r k = l' k) (hl : l' k ≠ 0) :
    innerWF m w (gramEigfun N Xc V r k) (gramEigfun N Xc V r k) = 1 := by
  rw [gram_route_norm m N w Xc V r l' 0 k heig hnorm hr hl, add_zero, div_self hl]

/-- Gram route, eigen-equation: `φ_k` is an eigenfunction of the `1/N` covariance
operator of the centred curves, with eigenvalue `(l'_k + σ²)/N` — which is the
reported `λ_k = l'_k/N` exactly when `σ² = 0`. -/
theorem gram_route_eigen (m N : ℕ) (w : ℕ → F) (Xc V : ℕ → ℕ → F) (r l' : ℕ → F) (σ2 : F) (k : ℕ)
    (_hrk : r k ≠ 0) (_hN : (N : F) ≠ 0)
    (heig : ∀ i < N, ∑ i' ∈ range N, gramShift (gramW m w Xc) σ2 i i' * V k i' = l' k * V k i) :
    ∀ j, innerWF m w (fun j' => (∑ i ∈ range N, Xc i j * Xc i j') / (N : F)) (gramEigfun N Xc V r k)
        = (gramEigval N l' k + σ2 / (N : F)) * gramEigfun N Xc V r k j := by
  intro j
  have hp := gram_proj m N w Xc V r l' σ2 k heig
  rw [innerWF_linear_comb m N w (fun i => Xc i j) Xc (N : F)]
  have : ∑ i ∈ range N, Xc i j * innerWF m w (Xc i) (gramEigfun N Xc V r k)
      = (l' k + σ2) * gramEigfun N Xc V r k j := by
    have e : ∑ i ∈ range N, Xc i j * innerWF m w (Xc i) (gramEigfun N Xc V r k)
        = ∑ i ∈ range N, Xc i j * ((l' k + σ2) * V k i / r k) := by
      apply Finset.sum_congr rfl; intro i hi
      rw [hp i (mem_range.1 hi)]
    rw [e]
    unfold gramEigfun
    rw [mul_div_assoc', Finset.mul_sum, Finset.sum_div]
    apply Finset.sum_congr rfl; intro i _
    ring
  rw [this]
  unfold gramEigval
  ring

/-- **Duality of the two methods** (`Xᵀ X` vs `X Xᵀ` under the quadrature weights).  If `v` is an
eigenvector of the (noise-free) Gram matrix, `G v = l v`, then `u_j = s_j Σ_i Xc_ij v_i` is an eigenvector
of the matrix `S C S` the covariance route decomposes, for the eigenvalue `l/(N−1)`: every Gram-route
pair is a covariance-route pair, with `λ_cov = l/(N−1) = λ_gram · N/(N−1)` (`λ_gram = l/N`), and the
back-transformed eigenfunction `u/s = Xcᵀ v` is the Gram-route eigenfunction up to the factor `√l`. -/
theorem duality_gram_to_cov (m N : ℕ) (s w : ℕ → F) (Xc : ℕ → ℕ → F) (v : ℕ → F) (l : F)
    (hs : ∀ j < m, s j * s j = w j)
    (hv : ∀ i < N, ∑ i' ∈ range N, gramW m w Xc i i' * v i' = l * v i) :
    ∀ j < m, ∑ j' ∈ range m, symMat s (covMat N Xc) j j' * (s j' * ∑ i ∈ range N, Xc i j' * v i)
      = l / ((N : F) - 1) * (s j * ∑ i ∈ range N, Xc i j * v i) := by
  intro j _
  -- Σ_j' w_j' Xc_aj' (Σ_i Xc_ij' v_i) = Σ_i G_ai v_i = l v_a
  have hG : ∀ a < N, ∑ j' ∈ range m, w j' * (Xc a j' * ∑ i ∈ range N, Xc i j' * v i) = l * v a := by
    intro a ha
    rw [← hv a ha]
    unfold gramW innerWF
    simp_rw [Finset.mul_sum, Finset.sum_mul]
    rw [Finset.sum_comm]
    apply Finset.sum_congr rfl; intro i _
    apply Finset.sum_congr rfl; intro j' _
    ring
  calc ∑ j' ∈ range m, symMat s (covMat N Xc) j j' * (s j' * ∑ i ∈ range N, Xc i j' * v i)
      = ∑ j' ∈ range m, ∑ a ∈ range N, s j / ((N : F) - 1) * (Xc a j * (w j' * (Xc a j' * ∑ i ∈ range N, Xc i j' * v i))) := by
        apply Finset.sum_congr rfl; intro j' hj'
        unfold symMat covMat
        rw [← hs j' (mem_range.1 hj'), Finset.sum_div, Finset.mul_sum, Finset.sum_mul, Finset.sum_mul]
        apply Finset.sum_congr rfl; intro a _
        ring
    _ = ∑ a ∈ range N, s j / ((N : F) - 1) * (Xc a j * ∑ j' ∈ range m, w j' * (Xc a j' * ∑ i ∈ range N, Xc i j' * v i)) := by
        rw [Finset.sum_comm]
        apply Finset.sum_congr rfl; intro a _
        rw [Finset.mul_sum, Finset.mul_sum]
    _ = ∑ a ∈ range N, s j / ((N : F) - 1) * (Xc a j * (l * v a)) := by
        apply Finset.sum_congr rfl; intro a ha
        rw [hG a (mem_range.1 ha)]
    _ = l / ((N : F) - 1) * (s j * ∑ i ∈ range N, Xc i j * v i) := by
        rw [Finset.mul_sum, Finset.mul_sum]
        apply Finset.sum_congr rfl; intro a _
        ring

/-- The converse direction: a covariance-route pair `(λ, u)` of `S C S` gives the Gram-matrix pair
`((N−1) λ, v)` with `v_i = Σ_j Xc_ij s_j u_j` (the un-normalised scores of curve `i`). -/
theorem duality_cov_to_gram (m N : ℕ) (s w : ℕ → F) (Xc : ℕ → ℕ → F) (u : ℕ → F) (lam : F)
    (hN : (N : F) - 1 ≠ 0) (hs : ∀ j < m, s j * s j = w j)
    (hu : ∀ j < m, ∑ j' ∈ range m, symMat s (covMat N Xc) j j' * u j' = lam * u j) :
    ∀ i < N, ∑ i' ∈ range N, gramW m w Xc i i' * (∑ j ∈ range m, Xc i' j * (s j * u j))
      = ((N : F) - 1) * lam * ∑ j ∈ range m, Xc i j * (s j * u j) := by
  intro i _
  -- (N−1) Σ_j' A_jj' u_j' = s_j Σ_a Xc_aj Σ_j' Xc_aj' s_j' u_j'
  have hA : ∀ j < m, s j * ∑ a ∈ range N, Xc a j * ∑ j' ∈ range m, Xc a j' * (s j' * u j')
      = ((N : F) - 1) * (lam * u j) := by
    intro j hj
    rw [← hu j hj]
    unfold symMat covMat
    rw [Finset.mul_sum, Finset.mul_sum]
    simp_rw [Finset.mul_sum]
    rw [Finset.sum_comm]
    apply Finset.sum_congr rfl; intro j' _
    rw [Finset.sum_div, Finset.mul_sum, Finset.sum_mul, Finset.sum_mul, Finset.mul_sum]
    apply Finset.sum_congr rfl; intro a _
    field_simp
  calc ∑ i' ∈ range N, gramW m w Xc i i' * (∑ j ∈ range m, Xc i' j * (s j * u j))
      = ∑ j ∈ range m, Xc i j * (s j * (s j * ∑ a ∈ range N, Xc a j * ∑ j' ∈ range m, Xc a j' * (s j' * u j'))) := by
        unfold gramW innerWF
        simp_rw [Finset.sum_mul, Finset.mul_sum]
        rw [Finset.sum_comm]
        apply Finset.sum_congr rfl; intro j hj
        apply Finset.sum_congr rfl; intro a _
        rw [← hs j (mem_range.1 hj)]
        apply Finset.sum_congr rfl; intro j' _
        ring
    _ = ∑ j ∈ range m, Xc i j * (s j * (((N : F) - 1) * (lam * u j))) := by
        apply Finset.sum_congr rfl; intro j hj
        rw [hA j (mem_range.1 hj)]
    _ = ((N : F) - 1) * lam * ∑ j ∈ range m, Xc i j * (s j * u j) := by
        rw [Finset.mul_sum]
        apply Finset.sum_congr rfl; intro j _
        ring

/-- Why `n_components = None` always fails on the Gram route: for column-centred
curves the constant vector is an eigenvector of `G − σ²I` for the eigenvalue `−σ² ≤ 0`;
the code clips it to `0` and divides by `√0` (open finding `C02-gram-nonpositive-eigenvalue`). -/
theorem gram_shift_const_eigen (m N : ℕ) (w : ℕ → F) (Xc : ℕ → ℕ → F) (σ2 : F)
    (hc : ∀ j < m, ∑ i ∈ range N, Xc i j = 0) :
    ∀ i < N, ∑ i' ∈ range N, gramShift (gramW m w Xc) σ2 i i' * 1 = (-σ2) * 1 := by
  classical
  intro i hi
  unfold gramShift
  simp only [mul_one]
  rw [Finset.sum_sub_distrib, Finset.sum_ite_eq, if_pos (mem_range.2 hi)]
  have : ∑ i' ∈ range N, gramW m w Xc i i' = 0 := by
    unfold gramW innerWF
    rw [Finset.sum_comm]
    apply Finset.sum_eq_zero
    intro j hj
    rw [← Finset.mul_sum, ← Finset.mul_sum, hc j (mem_range.1 hj)]
    ring
  rw [this]; ring

/-- The eig contract alone (`A u = λ u`, unit vectors) does **not** give orthonormal
eigenfunctions: inside a repeated eigenvalue the solver may return any basis.
Witness: `C = 0` on two points, `u₀ = (1,0)`, `u₁ = (3/5,4/5)`. -/
theorem counterexample_tied :
    ¬ (∀ (m : ℕ) (s w : ℕ → ℚ) (C U : ℕ → ℕ → ℚ) (lam : ℕ → ℚ),
        (∀ j < m, s j * s j = w j) → (∀ j < m, s j ≠ 0) →
        (∀ k < m, ∀ i < m, ∑ j ∈ range m, symMat s C i j * U k j = lam k * U k i) →
        (∀ k < m, ∑ j ∈ range m, U k j * U k j = 1) →
        ∀ a < m, ∀ b < m, innerWF m w (backTransform s U a) (backTransform s U b) = if a = b then 1 else 0) := by
  intro h
  let U : ℕ → ℕ → ℚ := fun k j => if k = 0 then (if j = 0 then 1 else 0) else (if j = 0 then 3 / 5 else 4 / 5)
  have := h 2 (fun _ => 1) (fun _ => 1) (fun _ _ => 0) U (fun _ => 0)
    (by intro j _; norm_num) (by intro j _; norm_num)
    (by intro k _ i _; simp [symMat])
    (by intro k hk
        obtain rfl | rfl : k = 0 ∨ k = 1 := by omega
        · simp [U]
        · simp [U, Finset.sum_range_succ]; norm_num)
    0 (by norm_num) 1 (by norm_num)
  simp [innerWF, backTransform, U, Finset.sum_range_succ] at this

end field

section ordered
variable {F : Type} [Field F] [LinearOrder F] [IsStrictOrderedRing F]

/-- The sample covariance is positive semi-definite (`N ≥ 2`), so by the contract lemma
`C01.eig_psd_nonneg` its eigenvalues are `≥ 0` and clipping only removes rounding noise. -/
theorem covMat_psd (N m : ℕ) (Xc : ℕ → ℕ → F) (x : ℕ → F) (hN : 2 ≤ N) :
    0 ≤ ∑ i ∈ range m, ∑ j ∈ range m, x i * covMat N Xc i j * x j := by
  have hpos : (0 : F) < (N : F) - 1 := by
    have : (2 : F) ≤ (N : F) := by exact_mod_cast hN
    linarith
  have key : ∀ i j, x i * covMat N Xc i j * x j
      = (∑ a ∈ range N, (x i * Xc a i) * (x j * Xc a j)) / ((N : F) - 1) := by
    intro i j
    unfold covMat
    rw [mul_div_assoc', div_mul_eq_mul_div, Finset.mul_sum, Finset.sum_mul]
    congr 1
    apply Finset.sum_congr rfl; intro a _; ring
  have : ∑ i ∈ range m, ∑ j ∈ range m, x i * covMat N Xc i j * x j
      = (∑ a ∈ range N, (∑ i ∈ range m, x i * Xc a i) ^ 2) / ((N : F) - 1) := by
    simp_rw [key, ← Finset.sum_div]
    congr 1
    have : ∀ i ∈ range m, ∑ j ∈ range m, ∑ a ∈ range N, x i * Xc a i * (x j * Xc a j)
        = ∑ a ∈ range N, ∑ j ∈ range m, x i * Xc a i * (x j * Xc a j) := fun i _ => Finset.sum_comm
    rw [Finset.sum_congr rfl this, Finset.sum_comm]
    apply Finset.sum_congr rfl; intro a _
    rw [pow_two, Finset.sum_mul_sum]
  rw [this]
  exact div_nonneg (Finset.sum_nonneg fun a _ => sq_nonneg _) hpos.le

/-- Truncated Mercer sum: with `K ≤ m` components kept out of a complete orthonormal
eigen-system whose dropped eigenvalues are `≥ 0`, `C − Σ_{k<K} λ_k φ_k φ_kᵀ` is positive
semi-definite — the reported covariance is the part of `C` carried by the kept components. -/
theorem mercer_truncated_psd (m K : ℕ) (hK : K ≤ m) (s : ℕ → F) (C U : ℕ → ℕ → F) (lam : ℕ → F)
    (hpos : ∀ j < m, s j ≠ 0)
    (hrows : ∀ a < m, ∀ b < m, ∑ j ∈ range m, U a j * U b j = if a = b then 1 else 0)
    (heig : ∀ k < m, ∀ i < m, ∑ j ∈ range m, symMat s C i j * U k j = lam k * U k i)
    (hlam : ∀ k, K ≤ k → k < m → 0 ≤ lam k) (x : ℕ → F) :
    0 ≤ ∑ i ∈ range m, ∑ j ∈ range m, x i * (C i j - mercer K lam (backTransform s U) i j) * x j := by
  have hfull := mercer_full m s C U lam hpos hrows heig
  set Phi := backTransform s U with hPhi
  have hdiff : ∀ i < m, ∀ j < m, C i j - mercer K lam Phi i j = ∑ k ∈ Ico K m, Phi k i * lam k * Phi k j := by
    intro i hi j hj
    rw [← hfull i hi j hj]
    unfold mercer
    rw [← Finset.sum_range_add_sum_Ico _ hK]
    ring
  have : ∑ i ∈ range m, ∑ j ∈ range m, x i * (C i j - mercer K lam Phi i j) * x j
      = ∑ k ∈ Ico K m, lam k * (∑ i ∈ range m, x i * Phi k i) ^ 2 := by
    have e1 : ∑ i ∈ range m, ∑ j ∈ range m, x i * (C i j - mercer K lam Phi i j) * x j
        = ∑ i ∈ range m, ∑ j ∈ range m, ∑ k ∈ Ico K m, lam k * ((x i * Phi k i) * (x j * Phi k j)) := by
      apply Finset.sum_congr rfl; intro i hi
      apply Finset.sum_congr rfl; intro j hj
      rw [hdiff i (mem_range.1 hi) j (mem_range.1 hj), Finset.mul_sum, Finset.sum_mul]
      apply Finset.sum_congr rfl; intro k _; ring
    rw [e1]
    have : ∀ i ∈ range m, ∑ j ∈ range m, ∑ k ∈ Ico K m, lam k * ((x i * Phi k i) * (x j * Phi k j))
        = ∑ k ∈ Ico K m, ∑ j ∈ range m, lam k * ((x i * Phi k i) * (x j * Phi k j)) := fun i _ => Finset.sum_comm
    rw [Finset.sum_congr rfl this, Finset.sum_comm]
    apply Finset.sum_congr rfl; intro k _
    rw [pow_two, Finset.sum_mul_sum, Finset.mul_sum]
    apply Finset.sum_congr rfl; intro i _
    rw [Finset.mul_sum]
  rw [this]
  apply Finset.sum_nonneg
  intro k hk
  rw [Finset.mem_Ico] at hk
  exact mul_nonneg (hlam k hk.1 hk.2) (sq_nonneg _)

end ordered

/-! ### The same statements for the trapezoid quadrature the code uses (`F = ℚ`) and over `ℝ` -/

/-- The quadrature weights of a strictly increasing grid are positive: `S = diag(√w)` is
invertible — the guard under which the model divides. -/
theorem weights_pos (m : ℕ) (t : ℕ → ℚ) (hmono : ∀ i j, i < j → t i < t j) (hm : 2 ≤ m) :
    ∀ j < m, 0 < trapzW m t j :=
  fun j hj => FDA.trapzW_pos hmono hm j hj

/-- Orthonormality for the trapezoid rule itself (`np.trapz`), any grid with `≥ 2` points. -/
theorem orthonormal_trapz (m : ℕ) (hm : 2 ≤ m) (t s : ℕ → ℚ) (U : ℕ → ℕ → ℚ)
    (hs : ∀ j < m, s j * s j = trapzW m t j) (hpos : ∀ j < m, s j ≠ 0) (a b : ℕ) (δ : ℚ)
    (hU : ∑ j ∈ range m, U a j * U b j = δ) :
    inner m t (backTransform s U a) (backTransform s U b) = δ := by
  rw [inner_eq_innerWF m t _ _ hm]
  exact orthonormal_w m s _ U hs hpos a b δ hU

/-- The integral eigen-equation with the integral computed by `np.trapz`. -/
theorem eigen_equation_trapz (m : ℕ) (hm : 2 ≤ m) (t s : ℕ → ℚ) (C U : ℕ → ℕ → ℚ) (k : ℕ) (lam : ℚ)
    (hs : ∀ j < m, s j * s j = trapzW m t j) (hpos : ∀ j < m, s j ≠ 0)
    (hu : ∀ i < m, ∑ j ∈ range m, symMat s C i j * U k j = lam * U k i) :
    ∀ i < m, trapz m t (fun j => C i j * backTransform s U k j) = lam * backTransform s U k i := by
  intro i hi
  have := eigen_equation m s _ C U k lam hs hpos hu i hi
  rw [← inner_eq_innerWF m t _ _ hm] at this
  exact this

/-- The matrix the Gram route decomposes: the code's procedure `gramImpl` (upper
triangle, `−σ²` on the diagonal, symmetrise — C08) is `gramShift (gramW …)` of the
centred curves, the object of the `gram_route_*` theorems. -/
theorem gram_link (N m : ℕ) (hm : 2 ≤ m) (t : ℕ → ℚ) (X : ℕ → ℕ → ℚ) (σ2 : ℚ) (i k : ℕ) :
    gramImpl N m t X σ2 i k = gramShift (gramW m (trapzW m t) (center N X)) σ2 i k := by
  rw [FDA.FPCA.gramImpl_eq]
  unfold gramShift gramW gram
  rw [inner_eq_innerWF m t _ _ hm]

/-- `inner_product` centres the (already centred) training data again: a no-op. -/
theorem center_idem (N : ℕ) (hN : 0 < N) (X : ℕ → ℕ → ℚ) (i j : ℕ) :
    center N (center N X) i j = center N X i j := by
  have h0 : colMean N (center N X) j = 0 := by
    unfold colMean center colMean
    rw [Finset.sum_sub_distrib, Finset.sum_const, card_range, nsmul_eq_mul]
    have : (N : ℚ) ≠ 0 := by exact_mod_cast hN.ne'
    field_simp
    ring
  show center N X i j - colMean N (center N X) j = _
  rw [h0, sub_zero]

/-- Over `ℝ` the square roots exist: with `s = √w` there is no hypothesis on `s` left. -/
theorem orthonormal_real (m : ℕ) (w : ℕ → ℝ) (hw : ∀ j < m, 0 < w j) (U : ℕ → ℕ → ℝ) (a b : ℕ) (δ : ℝ)
    (hU : ∑ j ∈ range m, U a j * U b j = δ) :
    innerWF m w (backTransform (fun j => Real.sqrt (w j)) U a)
      (backTransform (fun j => Real.sqrt (w j)) U b) = δ :=
  orthonormal_w m _ w U (fun j hj => Real.mul_self_sqrt (hw j hj).le)
    (fun j hj => (Real.sqrt_pos.2 (hw j hj)).ne') a b δ hU

/-- … and the Gram-route norm formula with `r_k = √l'_k`, `l'_k > 0`. -/
theorem gram_route_norm_real (m N : ℕ) (w : ℕ → ℝ) (Xc V : ℕ → ℕ → ℝ) (l' : ℕ → ℝ) (σ2 : ℝ) (k : ℕ)
    (heig : ∀ i < N, ∑ i' ∈ range N, gramShift (gramW m w Xc) σ2 i i' * V k i' = l' k * V k i)
    (hnorm : ∑ i ∈ range N, V k i * V k i = 1) (hl : 0 < l' k) :
    innerWF m w (gramEigfun N Xc V (fun k => Real.sqrt (l' k)) k)
      (gramEigfun N Xc V (fun k => Real.sqrt (l' k)) k) = (l' k + σ2) / l' k :=
  gram_route_norm m N w Xc V _ l' σ2 k heig hnorm (Real.mul_self_sqrt hl.le) hl.ne'

/-- The drivers' square roots: `sqrtQ q` brackets `√q` within `10⁻²⁴`, so the
hypotheses `s·s = w`, `r·r = l` of the theorems hold for the executed numbers up to
that (relative to the `1e-9` comparison tolerance negligible) gap. -/
theorem sqrt_bracket (q : ℚ) (hq : 0 ≤ q) :
    0 ≤ sqrtQ q ∧ sqrtQ q ^ 2 ≤ q ∧ q < (sqrtQ q + 1 / (10 ^ 24 : ℕ)) ^ 2 :=
  FDA.sqrtLo_bracket 24 q hq

/-- `mercer_truncated_psd` over `ℝ` with the explicit square roots `s = √w` (`w_j > 0`, `weights_pos`):
no hypothesis on the roots is left. -/
theorem mercer_truncated_psd_real (m K : ℕ) (hK : K ≤ m) (w : ℕ → ℝ) (hw : ∀ j < m, 0 < w j)
    (C U : ℕ → ℕ → ℝ) (lam : ℕ → ℝ)
    (hrows : ∀ a < m, ∀ b < m, ∑ j ∈ range m, U a j * U b j = if a = b then 1 else 0)
    (heig : ∀ k < m, ∀ i < m, ∑ j ∈ range m, symMat (fun j => Real.sqrt (w j)) C i j * U k j = lam k * U k i)
    (hlam : ∀ k, K ≤ k → k < m → 0 ≤ lam k) (x : ℕ → ℝ) :
    0 ≤ ∑ i ∈ range m, ∑ j ∈ range m,
      x i * (C i j - mercer K lam (backTransform (fun j => Real.sqrt (w j)) U) i j) * x j :=
  mercer_truncated_psd m K hK _ C U lam (fun j hj => (Real.sqrt_pos.2 (hw j hj)).ne') hrows heig hlam x

/-! ### The formulas as written in the source (translator `harness/c02_translate.py`)

`FDA.Generated.ufpcaFit` is re-extracted with `ast` from `ufpca._fit_covariance`, `ufpca._fit_inner_product` and
`utils._compute_covariance` on every run.  The theorems below prove that the formulas so written are the functions all
C02 theorems are about; harmless rewritings (`U.T @ W^{-1/2}` for `(W^{-1/2} @ U).T`, `weight ** 0.5`, `np.dot` for `@`)
re-prove, a swapped `W^{1/2}`/`W^{-1/2}`, a one-sided product, a dropped square root, a missing transpose or another
divisor break them. -/

section source
open FDA.Generated

/-- Closing tactic robust to the harmless variants the translator recognises. -/
macro "src_close" : tactic =>
  `(tactic| first
    | rfl
    | (norm_num [ufpcaFit, symMatP, backTransformP, gramEigfunP, gramEigvalP, mercerP, diagP, symMat, backTransform,
        gramEigfun, gramEigval, mercer] <;> first | done | ring | (field_simp) | (field_simp; ring)))

/-- The powers of the quadrature weights (`W^{1/2}`, `W^{-1/2}`), the trapezoid rule, the re-centred curves and the
transposed storage of the Gram-route eigenfunctions, as written in the source. -/
theorem fit_flags_src :
    ufpcaFit.sqrtPow = 1 / 2 ∧ ufpcaFit.invPow = -1 / 2 ∧ ufpcaFit.quadTrapz = true ∧ ufpcaFit.gramInpro = true
      ∧ ufpcaFit.gramResultT = true := by
  refine ⟨?_, ?_, ?_, ?_, ?_⟩ <;> norm_num [ufpcaFit]

/-- `covariance_matrix = … @ covariance @ …` as written is the model's `symMat` (`S C S`). -/
theorem symMat_src_eq_model {F : Type} [Field F] (s sinv : ℕ → F) (C : ℕ → ℕ → F) (i j : ℕ) :
    symMatP ufpcaFit s sinv C i j = symMat s C i j := by
  src_close

/-- The eigenfunctions as recovered in the source (`W^{-1/2}` applied to the solver vectors, transposed) are the
model's `backTransform` (`sinv` is the diagonal of `W^{-1/2}`). -/
theorem backTransform_src_eq_model {F : Type} [Field F] (s sinv : ℕ → F) (U : ℕ → ℕ → F) (k j : ℕ)
    (hinv : sinv j = 1 / s j) : backTransformP ufpcaFit s sinv U k j = backTransform s U k j := by
  unfold backTransformP backTransform
  norm_num [ufpcaFit, diagP, hinv] <;> first | done | ring

/-- Gram route: `values.T @ eigenvectors / np.sqrt(eigenvalues)` as written is `gramEigfun` (`r = √l`). -/
theorem gramEigfun_src_eq_model {F : Type} [Field F] (N : ℕ) (Xc V : ℕ → ℕ → F) (r l : ℕ → F) (k j : ℕ) :
    gramEigfunP ufpcaFit N Xc V r l k j = gramEigfun N Xc V r k j := by
  src_close

/-- … and `eigenvalues / n_obs` is `gramEigval`. -/
theorem gramEigval_src_eq_model {F : Type} [Field F] (N : ℕ) (l : ℕ → F) (k : ℕ) :
    gramEigvalP ufpcaFit N l k = gramEigval N l k := by
  src_close

/-- `_compute_covariance` as written is the model's Mercer sum. -/
theorem mercer_src_eq_model {F : Type} [Field F] (K : ℕ) (lam r : ℕ → F) (Phi : ℕ → ℕ → F) (i j : ℕ) :
    mercerP ufpcaFit K lam r Phi i j = mercer K lam Phi i j := by
  src_close

end source

/-! ### Non-vacuity -/

/-- A concrete eigen-system meeting every hypothesis of `orthonormal_w`, `eigen_equation`,
`mercer_full`, `mercer_truncated_psd`: two grid points with weights `1, 4` (`s = 1, 2`),
`C = diag(2, 1/4)` so that `S C S = diag(2, 1)`, solver vectors `e₀, e₁`, eigenvalues `2, 1`. -/
example :
    let s : ℕ → ℚ := fun j => if j = 0 then 1 else 2
    let w : ℕ → ℚ := fun j => if j = 0 then 1 else 4
    let C : ℕ → ℕ → ℚ := fun i j => if i = j then (if i = 0 then 2 else 1 / 4) else 0
    let U : ℕ → ℕ → ℚ := fun k j => if k = j then 1 else 0
    let lam : ℕ → ℚ := fun k => if k = 0 then 2 else 1
    (∀ j < 2, s j * s j = w j) ∧ (∀ j < 2, s j ≠ 0) ∧
    (∀ a < 2, ∀ b < 2, ∑ j ∈ range 2, U a j * U b j = if a = b then 1 else 0) ∧
    (∀ k < 2, ∀ i < 2, ∑ j ∈ range 2, symMat s C i j * U k j = lam k * U k i) := by
  refine ⟨?_, ?_, ?_, ?_⟩
  · intro j hj; obtain rfl | rfl : j = 0 ∨ j = 1 := by omega
    all_goals norm_num
  · intro j hj; obtain rfl | rfl : j = 0 ∨ j = 1 := by omega
    all_goals norm_num
  · intro a ha b hb
    obtain rfl | rfl : a = 0 ∨ a = 1 := by omega
    all_goals obtain rfl | rfl : b = 0 ∨ b = 1 := by omega
    all_goals simp
  · intro k hk i hi
    obtain rfl | rfl : k = 0 ∨ k = 1 := by omega
    all_goals obtain rfl | rfl : i = 0 ∨ i = 1 := by omega
    all_goals simp [symMat]
    all_goals norm_num

/-- Gram route: the eigen-hypothesis of the `gram_route_*` theorems on a concrete instance —
two centred curves `±(3,4,0)` on three points with unit weights, `σ² = 0`:
`G = 25·[[1,−1],[−1,1]]`, vector `(1,−1)`, eigenvalue `50`. -/
example :
    let Xc : ℕ → ℕ → ℚ := fun i j => (if i = 0 then 1 else -1) * (if j = 0 then 3 else if j = 1 then 4 else 0)
    let V : ℕ → ℕ → ℚ := fun _ i => if i = 0 then 1 else -1
    ∀ i < 2, ∑ i' ∈ range 2, gramShift (gramW 3 (fun _ => (1 : ℚ)) Xc) 0 i i' * V 0 i' = 50 * V 0 i := by
  intro Xc V i hi
  obtain rfl | rfl : i = 0 ∨ i = 1 := by omega
  all_goals simp [Finset.sum_range_succ, gramShift, gramW, innerWF, Xc, V]
  all_goals norm_num

/-- `duality_gram_to_cov`: the Gram eigen-hypothesis on the same instance (`σ² = 0`, eigenvalue 50). -/
example :
    let Xc : ℕ → ℕ → ℚ := fun i j => (if i = 0 then 1 else -1) * (if j = 0 then 3 else if j = 1 then 4 else 0)
    let v : ℕ → ℚ := fun i => if i = 0 then 1 else -1
    ∀ i < 2, ∑ i' ∈ range 2, gramW 3 (fun _ => (1 : ℚ)) Xc i i' * v i' = 50 * v i := by
  intro Xc v i hi
  obtain rfl | rfl : i = 0 ∨ i = 1 := by omega
  all_goals simp [Finset.sum_range_succ, gramW, innerWF, Xc, v]
  all_goals norm_num

end C02
