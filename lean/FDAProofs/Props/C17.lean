/-
C17 — FCP-TPA terminates and is a greedy rank-one deflation.
Only property theorems and non-vacuity examples; helper lemmas are in
`FDAProofs/Lemmas/FCPTPA.lean`, the model in `FDAModel/FCPTPA.lean`.
-/
import FDAProofs.Lemmas.FCPTPA

namespace C17
open FDA FDA.FCPTPA Finset

variable {V : Type}

/-! ## Termination of the iteration loop -/

/-- **Termination.**  For every update step, every convergence test that is false on
identical vectors at a non-negative tolerance (the coded test `0/‖v‖ > tol`), every
iteration limit (also `0`) and either setting of `adapt_tolerance`, the while loop of one
component stops after at most `2·max + 1` updates (`2·max + 2` units of fuel are never
used up). -/
theorem terminates (notConv : V → V → ℚ → Bool) (update : V → V) (max : ℕ) (adapt : Bool)
    (hrefl : ∀ v tol, 0 ≤ tol → notConv v v tol = false) (tol : ℚ) (htol : 0 ≤ tol) (old cur : V) :
    ∃ r, run notConv update max adapt (fuelFor max) ⟨0, tol, old, cur⟩ = some r ∧
      r.nIter ≤ 2 * max + 1 := by
  obtain ⟨r, hr, hb, _, _⟩ := run_terminates_aux notConv update max adapt hrefl (fuelFor max)
    ⟨0, tol, old, cur⟩ htol (Or.inr ⟨Or.inl (Nat.zero_le _), by simp [fuelFor]⟩)
  exact ⟨r, hr, hb⟩

example : ∃ r, run (fun (o c : ℕ) (_ : ℚ) => decide (o ≠ c)) (· + 1) 3 true (fuelFor 3)
    ⟨0, 1 / 1000, 0, 1⟩ = some r ∧ r.nIter ≤ 2 * 3 + 1 :=
  terminates _ _ 3 true (by intro v tol _; simp) _ (by norm_num) 0 1

/-- The result does not depend on the fuel: any larger budget gives the same final state
(so the bound is a property of the loop, not of the fuel handed to the model). -/
theorem terminates_any_fuel (notConv : V → V → ℚ → Bool) (update : V → V) (max : ℕ) (adapt : Bool)
    (fuel d : ℕ) (s r : Ctl V) (h : run notConv update max adapt fuel s = some r) :
    run notConv update max adapt (fuel + d) s = some r :=
  run_add_of_some notConv update max adapt fuel d s r h

example : run (fun (o c : ℕ) (_ : ℚ) => decide (o ≠ c)) (· + 1) 1 false (3 + 5) ⟨0, 0, 0, 1⟩
    = some ⟨2, 0, 3, 3⟩ :=
  terminates_any_fuel _ _ 1 false 3 5 _ _ (by simp [run, body])

/-- Without tolerance adaptation the loop stops after at most `max + 1` updates. -/
theorem iterations_bound_no_adapt (notConv : V → V → ℚ → Bool) (update : V → V) (max : ℕ)
    (hrefl : ∀ v tol, 0 ≤ tol → notConv v v tol = false) (tol : ℚ) (htol : 0 ≤ tol) (old cur : V)
    (fuel : ℕ) (r : Ctl V)
    (h : run notConv update max false fuel ⟨0, tol, old, cur⟩ = some r) : r.nIter ≤ max + 1 := by
  have key := run_invariant notConv update max false
    (fun s => 0 ≤ s.tol ∧ ((s.old = s.cur ∧ s.nIter ≤ max + 1) ∨ s.nIter ≤ max))
    (by
      intro s ⟨ht, hs⟩ hc
      refine ⟨body_tol_nonneg update max false s ht, ?_⟩
      rcases hs with ⟨he, _⟩ | hs
      · rw [he, hrefl _ _ ht] at hc; cases hc
      · simp only [body]
        split_ifs with g1 g2
        · simp at g2
        · left; exact ⟨rfl, by simp only; omega⟩
        · right; simp only; omega)
    fuel _ r ⟨htol, Or.inr (Nat.zero_le _)⟩ h
  rcases key.2 with ⟨_, h1⟩ | h1 <;> omega

example (r : Ctl ℕ)
    (h : run (fun (o c : ℕ) (_ : ℚ) => decide (o ≠ c)) (· + 1) 4 false 50 ⟨0, 1, 0, 1⟩ = some r) :
    r.nIter ≤ 5 :=
  iterations_bound_no_adapt _ _ 4 (by intro v tol _; simp) 1 (by norm_num) 0 1 50 r h

/-- On exit the loop condition is false: the vectors converged at the final tolerance or
the exit was forced. -/
theorem exit_condition (notConv : V → V → ℚ → Bool) (update : V → V) (max : ℕ) (adapt : Bool)
    (fuel : ℕ) (s r : Ctl V) (h : run notConv update max adapt fuel s = some r) :
    notConv r.old r.cur r.tol = false :=
  run_exit notConv update max adapt fuel s r h

/-- **The bound is attained.**  If the test never succeeds on distinct vectors and the
update never returns its input, the loop makes exactly `max(2·max, max+1)` updates with
adaptation and `max+1` without — in particular `2·max+1` for `max = 0`. -/
theorem bound_attained (notConv : V → V → ℚ → Bool) (update : V → V) (max : ℕ) (adapt : Bool)
    (hne : ∀ o c t, o ≠ c → notConv o c t = true)
    (hrefl : ∀ v tol, 0 ≤ tol → notConv v v tol = false)
    (hupd : ∀ v, update v ≠ v) (tol : ℚ) (htol : 0 ≤ tol) (old cur : V) (h0 : old ≠ cur) :
    ∃ r, run notConv update max adapt (fuelFor max) ⟨0, tol, old, cur⟩ = some r ∧
      r.nIter = if adapt = true then Nat.max (2 * max) (max + 1) else max + 1 := by
  cases adapt with
  | false =>
    simp only [Bool.false_eq_true, if_false]
    exact run_worst_aux notConv update max false hne hrefl hupd (max + 1)
      (by intro n hn; left; omega)
      (by intro n hn; exact ⟨by omega, by simp⟩)
      (fuelFor max) ⟨0, tol, old, cur⟩ htol
      (Or.inr ⟨h0, Nat.succ_pos _, by simp [fuelFor]; omega⟩)
  | true =>
    simp only [if_true]
    refine run_worst_aux notConv update max true hne hrefl hupd (Nat.max (2 * max) (max + 1))
      ?_ ?_ (fuelFor max) ⟨0, tol, old, cur⟩ htol (Or.inr ⟨h0, ?_, ?_⟩)
    · intro n hn
      rcases Nat.lt_or_ge (n + 1) (2 * max) with h | h
      · right; exact ⟨rfl, h⟩
      · left
        have : Nat.max (2 * max) (max + 1) = max + 1 ∨ Nat.max (2 * max) (max + 1) = 2 * max := by
          rcases Nat.le_total (2 * max) (max + 1) with g | g
          · left; exact Nat.max_eq_right g
          · right; exact Nat.max_eq_left g
        rcases this with e | e <;> rw [e] at hn <;> omega
    · intro n hn
      have h1 : 2 * max ≤ Nat.max (2 * max) (max + 1) := Nat.le_max_left _ _
      have h2 : max + 1 ≤ Nat.max (2 * max) (max + 1) := Nat.le_max_right _ _
      refine ⟨by omega, ?_⟩
      rintro ⟨_, h⟩; omega
    · have h2 : max + 1 ≤ Nat.max (2 * max) (max + 1) := Nat.le_max_right _ _
      simp only; omega
    · have : Nat.max (2 * max) (max + 1) ≤ 2 * max + 1 := Nat.max_le.mpr ⟨by omega, by omega⟩
      simp only [fuelFor]; omega

example : ∃ r, run (fun (o c : ℕ) (_ : ℚ) => decide (o ≠ c)) (· + 1) 0 true (fuelFor 0)
    ⟨0, 0, 0, 1⟩ = some r ∧ r.nIter = 2 * 0 + 1 := by
  simpa using bound_attained (fun (o c : ℕ) (_ : ℚ) => decide (o ≠ c)) (· + 1) 0 true
    (by intro o c _ h; simpa using h) (by intro v tol _; simp) (by intro v; simp) 0 (le_refl _) 0 1
    (by decide)

/-- The reflexivity hypothesis of `terminates` is needed: with a test that also fails on
identical vectors (the coded test at a *negative* tolerance: `0 > tol`) the loop never
exits, whatever the fuel. -/
theorem no_exit_without_reflexivity (notConv : V → V → ℚ → Bool) (update : V → V) (max : ℕ)
    (adapt : Bool) (hall : ∀ o c t, notConv o c t = true) :
    ∀ (fuel : ℕ) (s : Ctl V), run notConv update max adapt fuel s = none := by
  intro fuel
  induction fuel with
  | zero => intro s; rfl
  | succ f ih => intro s; rw [run]; simp only [hall, if_true]; exact ih _

example : run (fun (_ _ : ℕ) (t : ℚ) => decide (t < 0)) (· + 1) 2 true 1000 ⟨0, -1, 0, 1⟩ = none := by
  have h : ∀ (fuel : ℕ) (s : Ctl ℕ), s.tol < 0 →
      run (fun (_ _ : ℕ) (t : ℚ) => decide (t < 0)) (· + 1) 2 true fuel s = none := by
    intro fuel
    induction fuel with
    | zero => intro s _; rfl
    | succ f ih =>
      intro s hs
      rw [run]; simp only [hs, decide_true, if_true]
      apply ih
      rcases body_tol (· + 1) 2 true s with h1 | ⟨h1, _⟩ <;> rw [h1] <;> linarith
  exact h 1000 _ (by norm_num)

/-! ## Tolerance -/

/-- **The tolerance is restored** at the end of every component: whatever happened in
the loop, the coded reset gives back the tolerance the component started with. -/
theorem tolerance_restored (notConv : V → V → ℚ → Bool) (update : V → V) (max : ℕ) (adapt : Bool)
    (tol : ℚ) (old cur : V) (fuel : ℕ) (r : Ctl V)
    (h : run notConv update max adapt fuel ⟨0, tol, old, cur⟩ = some r) :
    resetTol adapt max tol r = tol := by
  apply resetTol_of_inv
  exact run_invariant notConv update max adapt (TolInv tol max adapt)
    (fun s hs _ => tolInv_body update tol max adapt s hs) fuel _ r (Or.inl rfl) h

example : resetTol true 2 (1 / 100) (⟨4, 1 / 10, 5, 5⟩ : Ctl ℕ) = 1 / 100 :=
  tolerance_restored (notConvRec fun _ => Ratio.fin (1 / 2)) (· + 1) 2 true (1 / 100) 0 1 6 _
    (by norm_num [run, body, notConvRec, Ratio.gt])

/-- Inside the loop the tolerance only ever equals the initial one, unless adaptation is
on and more than `max` updates were made. -/
theorem tolerance_changes_only_after_max (notConv : V → V → ℚ → Bool) (update : V → V) (max : ℕ)
    (adapt : Bool) (tol : ℚ) (old cur : V) (fuel : ℕ) (r : Ctl V)
    (h : run notConv update max adapt fuel ⟨0, tol, old, cur⟩ = some r) :
    r.tol = tol ∨ (adapt = true ∧ max < r.nIter) :=
  run_invariant notConv update max adapt (TolInv tol max adapt)
    (fun s hs _ => tolInv_body update tol max adapt s hs) fuel _ r (Or.inl rfl) h

/-- **All components.**  The loop over `K` components is defined (no while loop runs out
of fuel), makes at most `2·max+1` updates in each component, and hands the initial
tolerance to every component and back at the end. -/
theorem fit_counts (notConv : ℕ → V → V → ℚ → Bool) (update : ℕ → V → V) (zero scale : V → V)
    (max : ℕ) (adapt : Bool) (hrefl : ∀ k v tol, 0 ≤ tol → notConv k v v tol = false)
    (tol : ℚ) (htol : 0 ≤ tol) :
    ∀ (K k : ℕ) (cur : V), ∃ ns t v,
      fitCtl notConv update zero scale max adapt K k tol cur = some (ns, t, v) ∧
      ns.length = K ∧ (∀ c ∈ ns, c ≤ 2 * max + 1) ∧ t = tol := by
  intro K
  induction K with
  | zero => intro k cur; exact ⟨[], tol, cur, rfl, rfl, by simp, rfl⟩
  | succ K ih =>
    intro k cur
    obtain ⟨s, hs, hb⟩ := terminates (notConv k) (update k) max adapt (hrefl k) tol htol (zero cur) cur
    have hr := tolerance_restored (notConv k) (update k) max adapt tol (zero cur) cur _ s hs
    obtain ⟨ns, t, v, h1, h2, h3, h4⟩ := ih (k + 1) (scale s.cur)
    refine ⟨s.nIter :: ns, t, v, ?_, by simp [h2], ?_, h4⟩
    · simp only [fitCtl, start, hs, hr, h1]
    · intro c hc
      rcases List.mem_cons.mp hc with rfl | hc
      · exact hb
      · exact h3 c hc

example : ∃ ns t v, fitCtlRec (fun _ _ => Ratio.fin (1 / 2)) 2 true 3 (1 / 100) = some (ns, t, v) ∧
    ns.length = 3 ∧ (∀ c ∈ ns, c ≤ 2 * 2 + 1) ∧ t = 1 / 100 :=
  fit_counts _ _ _ _ 2 true (by intro k v tol h; simp [notConvRec, not_lt.mpr h]) _ (by norm_num) 3 0 1

/-- Total number of updates of a fit: at most `K·(2·max+1)`. -/
theorem total_updates_bound (notConv : ℕ → V → V → ℚ → Bool) (update : ℕ → V → V)
    (zero scale : V → V) (max : ℕ) (adapt : Bool)
    (hrefl : ∀ k v tol, 0 ≤ tol → notConv k v v tol = false) (tol : ℚ) (htol : 0 ≤ tol)
    (K : ℕ) (cur : V) :
    ∃ ns t v, fitCtl notConv update zero scale max adapt K 0 tol cur = some (ns, t, v) ∧
      ns.sum ≤ K * (2 * max + 1) := by
  obtain ⟨ns, t, v, h1, h2, h3, _⟩ := fit_counts notConv update zero scale max adapt hrefl tol htol K 0 cur
  refine ⟨ns, t, v, h1, ?_⟩
  have := List.sum_le_card_nsmul ns (2 * max + 1) h3
  simpa [h2] using this

/-! ## Rank-one deflation -/

/-- The squared norm of a rank-one tensor is the product of the squared vector norms;
three unit vectors give a unit tensor. -/
theorem rank_one_norm (n m₁ m₂ : ℕ) (T : Comp) :
    energy n m₁ m₂ (outer3 T) = dot n T.u T.u * dot m₁ T.v T.v * dot m₂ T.w T.w :=
  ip3_outer3_self n m₁ m₂ T

/-- One deflation step without any assumption on the vectors:
`‖R − cT‖² = ‖R‖² − c²(2 − ‖T‖²)` for the coded coefficient `c = ⟨R, T⟩`
(the identity the correspondence checks exactly on the recorded float vectors). -/
theorem deflation_energy_general (n m₁ m₂ : ℕ) (R : T3) (T : Comp) :
    energy n m₁ m₂ (rd3 (deflate1 n m₁ m₂ R T))
      = energy n m₁ m₂ (rd3 R) - coef n m₁ m₂ (rd3 R) T ^ 2 * (2 - tau n m₁ m₂ T) :=
  energy_deflate1 n m₁ m₂ R T

/-- **Deflation energy.**  With a unit-norm rank-one tensor the residual loses exactly
`c²`. -/
theorem deflation_energy (n m₁ m₂ : ℕ) (R : T3) (T : Comp) (hT : tau n m₁ m₂ T = 1) :
    energy n m₁ m₂ (rd3 (deflate1 n m₁ m₂ R T))
      = energy n m₁ m₂ (rd3 R) - coef n m₁ m₂ (rd3 R) T ^ 2 := by
  rw [energy_deflate1, hT]; ring

/-- A concrete unit component (first basis vectors) for the non-vacuity examples. -/
def e0 : Comp := ⟨fun i => if i = 0 then 1 else 0, fun i => if i = 0 then 1 else 0,
  fun i => if i = 0 then 1 else 0⟩

theorem tau_e0 : tau 2 3 4 e0 = 1 := by
  simp [tau, dot, e0]

example (R : T3) : energy 2 3 4 (rd3 (deflate1 2 3 4 R e0)) = energy 2 3 4 (rd3 R) - coef 2 3 4 (rd3 R) e0 ^ 2 :=
  deflation_energy 2 3 4 R e0 tau_e0

/-- The coefficient is the projection of the current residual: after the step the
residual is orthogonal to the extracted tensor. -/
theorem residual_orthogonal (n m₁ m₂ : ℕ) (R : T3) (T : Comp) (hT : tau n m₁ m₂ T = 1) :
    coef n m₁ m₂ (rd3 (deflate1 n m₁ m₂ R T)) T = 0 := by
  rw [coef_deflate1, hT]; ring

/-- … and it is the best coefficient: no other multiple of the unit tensor leaves a smaller
residual (greedy step). -/
theorem projection_optimal (n m₁ m₂ : ℕ) (R : T3) (T : Comp) (hT : tau n m₁ m₂ T = 1) (a : ℚ) :
    energy n m₁ m₂ (rd3 (deflate1 n m₁ m₂ R T))
      ≤ energy n m₁ m₂ (fun i j k => rd3 R i j k - a * outer3 T i j k) := by
  rw [deflation_energy n m₁ m₂ R T hT, energy_sub_smul, ip3_outer3_self, hT]
  unfold coef
  nlinarith [sq_nonneg (a - ip3 n m₁ m₂ (rd3 R) (outer3 T))]

/-- **Energy identity** (induction over the components): after `K` unit components
`‖R_K‖² = ‖X‖² − Σ_{k<K} c_k²`. -/
theorem energy_identity (n m₁ m₂ : ℕ) (X : T3) (T : ℕ → Comp) (K : ℕ)
    (hunit : ∀ k < K, tau n m₁ m₂ (T k) = 1) :
    energy n m₁ m₂ (rd3 (resid n m₁ m₂ X T K))
      = energy n m₁ m₂ (rd3 X) - ∑ k ∈ range K, coefAt n m₁ m₂ X T k ^ 2 := by
  induction K with
  | zero => simp [resid]
  | succ K ih =>
    rw [resid, deflation_energy _ _ _ _ _ (hunit K (Nat.lt_succ_self K)),
      ih (fun k hk => hunit k (Nat.lt_succ_of_lt hk)), Finset.sum_range_succ]
    unfold coefAt
    ring

example (X : T3) : energy 2 3 4 (rd3 (resid 2 3 4 X (fun _ => e0) 3))
    = energy 2 3 4 (rd3 X) - ∑ k ∈ range 3, coefAt 2 3 4 X (fun _ => e0) k ^ 2 :=
  energy_identity 2 3 4 X _ 3 (fun _ _ => tau_e0)

/-- **The error never increases** with the number of components. -/
theorem error_monotone (n m₁ m₂ : ℕ) (X : T3) (T : ℕ → Comp) (K : ℕ)
    (hunit : tau n m₁ m₂ (T K) = 1) :
    energy n m₁ m₂ (rd3 (resid n m₁ m₂ X T (K + 1))) ≤ energy n m₁ m₂ (rd3 (resid n m₁ m₂ X T K)) := by
  rw [resid, deflation_energy _ _ _ _ _ hunit]
  nlinarith [sq_nonneg (coef n m₁ m₂ (rd3 (resid n m₁ m₂ X T K)) (T K))]

/-- Bessel: the squared coefficients never add up to more than the energy of the data. -/
theorem coefficients_bounded (n m₁ m₂ : ℕ) (X : T3) (T : ℕ → Comp) (K : ℕ)
    (hunit : ∀ k < K, tau n m₁ m₂ (T k) = 1) :
    ∑ k ∈ range K, coefAt n m₁ m₂ X T k ^ 2 ≤ energy n m₁ m₂ (rd3 X) := by
  have h := energy_identity n m₁ m₂ X T K hunit
  have := energy_nonneg n m₁ m₂ (rd3 (resid n m₁ m₂ X T K))
  linarith

/-- **Reconstruction from the scores**: `inverse_transform(_scores) = Σ_k c_k u_k⊗v_k⊗w_k`,
i.e. data minus reconstruction is the residual after `K` deflations (no assumption on
the vectors). -/
theorem reconstruction_from_scores (n m₁ m₂ : ℕ) (X : T3) (T : ℕ → Comp) (K : ℕ) {i j l : ℕ}
    (hi : i < n) (hj : j < m₁) (hl : l < m₂) :
    rd3 X i j l - inverseTransform K (scores (coefAt n m₁ m₂ X T) T) (eigenimage T) i j l
      = rd3 (resid n m₁ m₂ X T K) i j l := by
  rw [sum_resid n m₁ m₂ X T K hi hj hl]
  congr 1
  unfold inverseTransform scores eigenimage outer3
  apply Finset.sum_congr rfl; intro k _
  ring

/-- The squared reconstruction error from the algorithm's own scores is
`‖X‖² − Σ c_k²`. -/
theorem reconstruction_error (n m₁ m₂ : ℕ) (X : T3) (T : ℕ → Comp) (K : ℕ)
    (hunit : ∀ k < K, tau n m₁ m₂ (T k) = 1) :
    energy n m₁ m₂ (fun i j l => rd3 X i j l
        - inverseTransform K (scores (coefAt n m₁ m₂ X T) T) (eigenimage T) i j l)
      = energy n m₁ m₂ (rd3 X) - ∑ k ∈ range K, coefAt n m₁ m₂ X T k ^ 2 := by
  rw [← energy_identity n m₁ m₂ X T K hunit]
  unfold energy
  exact ip3_congr (fun i hi j hj l hl => reconstruction_from_scores n m₁ m₂ X T K hi hj hl)
    (fun i hi j hj l hl => reconstruction_from_scores n m₁ m₂ X T K hi hj hl)

/-- Scores and eigenvalues: column `k` of the scores is `c_k u_k`, its variance
(`eigenvalues[k]`) is `c_k²·var(u_k)`. -/
theorem eigenvalue_of_scores (n : ℕ) (c : ℕ → ℚ) (T : ℕ → Comp) (k : ℕ) :
    popVar n (fun i => scores c T i k) = popVar n (T k).u * c k ^ 2 := by
  unfold scores
  have : (fun i => c k * (T k).u i) = fun i => (T k).u i * c k := by funext i; ring
  rw [this, popVar_mul]

/-! ## Normalisation option -/

/-- **Normalisation does not change reconstructions.** -/
theorem normalize_invariant (K : ℕ) (r : ℕ → ℚ) (S : ℕ → ℕ → ℚ) (E : ℕ → ℕ → ℕ → ℚ)
    (hr : ∀ k < K, r k ≠ 0) (i j l : ℕ) :
    inverseTransform K (normScores r S) (normImage r E) i j l = inverseTransform K S E i j l := by
  unfold inverseTransform normScores normImage
  apply Finset.sum_congr rfl; intro k hk
  have := hr k (mem_range.mp hk)
  field_simp

example : inverseTransform 2 (normScores (fun _ => 3) fun i k => i + k) (normImage (fun _ => 3) fun k j l => k + j * l) 1 2 3
    = inverseTransform 2 (fun i k => i + k) (fun k j l => k + j * l) 1 2 3 :=
  normalize_invariant 2 _ _ _ (by intro k _; norm_num) 1 2 3

/-- **Normalised eigenimages have unit L² norm** (`r k` is the norm: `r k ^ 2` = squared
L² norm on the grid, non-zero). -/
theorem normalize_unit_norm (m₁ m₂ : ℕ) (t₁ t₂ : ℕ → ℚ) (r : ℕ → ℚ) (E : ℕ → ℕ → ℕ → ℚ) (k : ℕ)
    (hr : r k ^ 2 = normSq2 m₁ m₂ t₁ t₂ (E k)) (h0 : r k ≠ 0) :
    normSq2 m₁ m₂ t₁ t₂ (normImage r E k) = 1 := by
  unfold normSq2 at *
  have : (fun a b => normImage r E k a b * normImage r E k a b)
      = fun a b => (1 / r k ^ 2) * (E k a b * E k a b) := by
    funext a b; unfold normImage; field_simp
  rw [this, integrate2_smul, ← hr]
  field_simp

example : normSq2 2 2 (fun i => i) (fun i => i) (normImage (fun _ => 2) (fun _ _ _ => 2) 0) = 1 :=
  normalize_unit_norm 2 2 _ _ _ _ 0 (by simp [normSq2, integrate2, trapz]; norm_num) (by norm_num)

/-- **Eigenvalues are scaled by the squared norm** under normalisation (they remain the
variances of the normalised scores). -/
theorem normalize_eigenvalues (n : ℕ) (r : ℕ → ℚ) (S : ℕ → ℕ → ℚ) (k : ℕ) :
    popVar n (fun i => normScores r S i k) = normEigenvalue r (fun c => popVar n fun i => S i c) k := by
  unfold normScores normEigenvalue
  rw [popVar_mul]

/-! ## Open finding `C17-zero-residual-nan`

The update step divides by `uᵀu` where `u` is proportional to the contraction of the
residual with the current `v`, `w`.  The property needs this divisor to be non-zero for
every residual the deflation can produce; it is not when the residual is zero. -/

/-- What the property needs of the first half of the update step. -/
def full_statement : Prop :=
  ∀ (n m₁ m₂ : ℕ) (R : ℕ → ℕ → ℕ → ℚ) (v w : ℕ → ℚ) (d : ℚ), d ≠ 0 → uCross n m₁ m₂ R v w d ≠ 0

/-- The divisor is positive as soon as the contraction of the residual with `v`, `w` is
not the zero vector (the domain on which the deflation theorems above apply). -/
theorem update_defined_partial (n m₁ m₂ : ℕ) (R : ℕ → ℕ → ℕ → ℚ) (v w : ℕ → ℚ) (d : ℚ) (hd : d ≠ 0)
    (h : ∃ i < n, powerU m₁ m₂ R v w i ≠ 0) : 0 < uCross n m₁ m₂ R v w d := by
  obtain ⟨i, hi, hne⟩ := h
  unfold uCross dot
  apply Finset.sum_pos'
  · intro j _; exact mul_self_nonneg _
  · refine ⟨i, mem_range.mpr hi, ?_⟩
    have : updateU m₁ m₂ R v w d i ≠ 0 := by unfold updateU; exact div_ne_zero hne hd
    exact mul_self_pos.mpr this

example : 0 < uCross 1 1 1 (fun _ _ _ => 2) (fun _ => 1) (fun _ => 1) 1 :=
  update_defined_partial 1 1 1 _ _ _ 1 one_ne_zero ⟨0, Nat.zero_lt_one, by simp [powerU]⟩

/-- On a zero residual (2×3×4, the shape of the replayed witness) the divisor is `0`:
the next updates are `0/0`. -/
theorem counterexample : ¬ full_statement := by
  intro h
  apply h 2 3 4 (fun _ _ _ => 0) (fun _ => 1) (fun _ => 1) 1 one_ne_zero
  simp [uCross, updateU, powerU, dot]

end C17
