/-
C17 — FCP-TPA terminates and is a greedy rank-one deflation.
Only property theorems and non-vacuity examples; helper lemmas are in
`FDAProofs/Lemmas/FCPTPA.lean`, the model in `FDAModel/FCPTPA.lean`.
-/
import FDAProofs.Lemmas.FCPTPAUpdate
import FDAModel.Generated.FcpLoop

namespace C17
open FDA FDA.FCPTPA Finset

variable {V : Type}

/-! ## Termination of the iteration loop -/

/-- **Termination.**  For every update step, every convergence test that is false on
identical vectors at a non-negative tolerance (the coded test `0/‖v‖ > tol`), every
iteration limit (also `0`) and either setting of `adapt_tolerance`, the while loop of one
component stops after at most `2·max + 1` updates (`2·max + 2` units of fuel are never
used up). -/
theorem terminates (notConv : V → V → ℚ → Bool) (update : V → V) (max : ℕ) (adapt : Bool)
    (hrefl : ∀ v tol, 0 ≤ tol → notConv v v tol = false) (tol : ℚ) (htol : 0 ≤ tol) (old cur : V) :
    ∃ r, run notConv update max adapt (fuelFor max) ⟨0, tol, old, cur⟩ = some r ∧
      r.nIter ≤ 2 * max + 1 := by
  obtain ⟨r, hr, hb, _, _⟩ := run_terminates_aux notConv update max adapt hrefl (fuelFor max)
    ⟨0, tol, old, cur⟩ htol (Or.inr ⟨Or.inl (Nat.zero_le _), by simp [fuelFor]⟩)
  exact ⟨r, hr, hb⟩

example : ∃ r, run (fun (o c : ℕ) (_ : ℚ) => decide (o ≠ c)) (· + 1) 3 true (fuelFor 3)
    ⟨0, 1 / 1000, 0, 1⟩ = some r ∧ r.nIter ≤ 2 * 3 + 1 :=
  terminates _ _ 3 true (by intro v tol _; simp) _ (by norm_num) 0 1

/-- The result does not depend on the fuel: any larger budget gives the same final state
(so the bound is a property of the loop, not of the fuel handed to the model). -/
theorem terminates_any_fuel (notConv : V → V → ℚ → Bool) (update : V → V) (max : ℕ) (adapt : Bool)
    (fuel d : ℕ) (s r : Ctl V) (h : run notConv update max adapt fuel s = some r) :
    run notConv update max adapt (fuel + d) s = some r :=
  run_add_of_some notConv update max adapt fuel d s r h

example : run (fun (o c : ℕ) (_ : ℚ) => decide (o ≠ c)) (· + 1) 1 false (3 + 5) ⟨0, 0, 0, 1⟩
    = some ⟨2, 0, 3, 3⟩ :=
  terminates_any_fuel _ _ 1 false 3 5 _ _ (by simp [run, body])

/-- Without tolerance adaptation the loop stops after at most `max + 1` updates. -/
theorem iterations_bound_no_adapt (notConv : V → V → ℚ → Bool) (update : V → V) (max : ℕ)
    (hrefl : ∀ v tol, 0 ≤ tol → notConv v v tol = false) (tol : ℚ) (htol : 0 ≤ tol) (old cur : V)
    (fuel : ℕ) (r : Ctl V)
    (h : run notConv update max false fuel ⟨0, tol, old, cur⟩ = some r) : r.nIter ≤ max + 1 := by
  have key := run_invariant notConv update max false
    (fun s => 0 ≤ s.tol ∧ ((s.old = s.cur ∧ s.nIter ≤ max + 1) ∨ s.nIter ≤ max))
    (by
      intro s ⟨ht, hs⟩ hc
      refine ⟨body_tol_nonneg update max false s ht, ?_⟩
      rcases hs with ⟨he, _⟩ | hs
      · rw [he, hrefl _ _ ht] at hc; cases hc
      · simp only [body]
        split_ifs with g1 g2
        · simp at g2
        · left; exact ⟨rfl, by simp only; omega⟩
        · right; simp only; omega)
    fuel _ r ⟨htol, Or.inr (Nat.zero_le _)⟩ h
  rcases key.2 with ⟨_, h1⟩ | h1 <;> omega

example (r : Ctl ℕ)
    (h : run (fun (o c : ℕ) (_ : ℚ) => decide (o ≠ c)) (· + 1) 4 false 50 ⟨0, 1, 0, 1⟩ = some r) :
    r.nIter ≤ 5 :=
  iterations_bound_no_adapt _ _ 4 (by intro v tol _; simp) 1 (by norm_num) 0 1 50 r h

/-- **Sharp bound over all histories**: whatever the update and the (reflexively false) test do,
one component makes at most `max(2·max, max+1)` updates — `2·max` as soon as `max ≥ 1` — and at
most `max+1` without adaptation (`iterations_bound_no_adapt`); `bound_attained` shows both are
reached. -/
theorem iterations_bound_sharp (notConv : V → V → ℚ → Bool) (update : V → V) (max : ℕ) (adapt : Bool)
    (hrefl : ∀ v tol, 0 ≤ tol → notConv v v tol = false) (tol : ℚ) (htol : 0 ≤ tol) (old cur : V)
    (fuel : ℕ) (r : Ctl V)
    (h : run notConv update max adapt fuel ⟨0, tol, old, cur⟩ = some r) :
    r.nIter ≤ Nat.max (2 * max) (max + 1) := by
  have h1 : 2 * max ≤ Nat.max (2 * max) (max + 1) := Nat.le_max_left _ _
  have h2 : max + 1 ≤ Nat.max (2 * max) (max + 1) := Nat.le_max_right _ _
  have key := run_invariant notConv update max adapt
    (fun s => 0 ≤ s.tol ∧ ((s.old = s.cur ∧ s.nIter ≤ Nat.max (2 * max) (max + 1)) ∨ s.nIter ≤ max ∨
      (adapt = true ∧ s.nIter < 2 * max)))
    (by
      intro s ⟨ht, hs⟩ hc
      refine ⟨body_tol_nonneg update max adapt s ht, ?_⟩
      rcases hs with ⟨he, _⟩ | hs
      · rw [he, hrefl _ _ ht] at hc; cases hc
      · simp only [body]
        split_ifs with g1 g2
        · simp only [Bool.and_eq_true, decide_eq_true_eq] at g2
          right; right; exact ⟨g2.1, by simp only; exact g2.2⟩
        · left
          refine ⟨rfl, ?_⟩
          simp only
          rcases hs with hs | ⟨_, hs⟩ <;> omega
        · right; left; simp only; omega)
    fuel _ r ⟨htol, Or.inr (Or.inl (Nat.zero_le _))⟩ h
  rcases key.2 with ⟨_, k⟩ | k | ⟨_, k⟩ <;> omega
example (r : Ctl ℕ)
    (h : run (fun (o c : ℕ) (_ : ℚ) => decide (o ≠ c)) (· + 1) 3 true 50 ⟨0, 1, 0, 1⟩ = some r) :
    r.nIter ≤ 6 := by
  simpa using iterations_bound_sharp _ _ 3 true (by intro v tol _; simp) 1 (by norm_num) 0 1 50 r h

/-- On exit the loop condition is false: the vectors converged at the final tolerance or
the exit was forced. -/
theorem exit_condition (notConv : V → V → ℚ → Bool) (update : V → V) (max : ℕ) (adapt : Bool)
    (fuel : ℕ) (s r : Ctl V) (h : run notConv update max adapt fuel s = some r) :
    notConv r.old r.cur r.tol = false :=
  run_exit notConv update max adapt fuel s r h

/-- **The bound is attained.**  If the test never succeeds on distinct vectors and the
update never returns its input, the loop makes exactly `max(2·max, max+1)` updates with
adaptation and `max+1` without — in particular `2·max+1` for `max = 0`. -/
theorem bound_attained (notConv : V → V → ℚ → Bool) (update : V → V) (max : ℕ) (adapt : Bool)
    (hne : ∀ o c t, o ≠ c → notConv o c t = true)
    (hrefl : ∀ v tol, 0 ≤ tol → notConv v v tol = false)
    (hupd : ∀ v, update v ≠ v) (tol : ℚ) (htol : 0 ≤ tol) (old cur : V) (h0 : old ≠ cur) :
    ∃ r, run notConv update max adapt (fuelFor max) ⟨0, tol, old, cur⟩ = some r ∧
      r.nIter = if adapt = true then Nat.max (2 * max) (max + 1) else max + 1 := by
  cases adapt with
  | false =>
    simp only [Bool.false_eq_true, if_false]
    exact run_worst_aux notConv update max false hne hrefl hupd (max + 1)
      (by intro n hn; left; omega)
      (by intro n hn; exact ⟨by omega, by simp⟩)
      (fuelFor max) ⟨0, tol, old, cur⟩ htol
      (Or.inr ⟨h0, Nat.succ_pos _, by simp [fuelFor]; omega⟩)
  | true =>
    simp only [if_true]
    refine run_worst_aux notConv update max true hne hrefl hupd (Nat.max (2 * max) (max + 1))
      ?_ ?_ (fuelFor max) ⟨0, tol, old, cur⟩ htol (Or.inr ⟨h0, ?_, ?_⟩)
    · intro n hn
      rcases Nat.lt_or_ge (n + 1) (2 * max) with h | h
      · right; exact ⟨rfl, h⟩
      · left
        have : Nat.max (2 * max) (max + 1) = max + 1 ∨ Nat.max (2 * max) (max + 1) = 2 * max := by
          rcases Nat.le_total (2 * max) (max + 1) with g | g
          · left; exact Nat.max_eq_right g
          · right; exact Nat.max_eq_left g
        rcases this with e | e <;> rw [e] at hn <;> omega
    · intro n hn
      have h1 : 2 * max ≤ Nat.max (2 * max) (max + 1) := Nat.le_max_left _ _
      have h2 : max + 1 ≤ Nat.max (2 * max) (max + 1) := Nat.le_max_right _ _
      refine ⟨by omega, ?_⟩
      rintro ⟨_, h⟩; omega
    · have h2 : max + 1 ≤ Nat.max (2 * max) (max + 1) := Nat.le_max_right _ _
      simp only; omega
    · have : Nat.max (2 * max) (max + 1) ≤ 2 * max + 1 := Nat.max_le.mpr ⟨by omega, by omega⟩
      simp only [fuelFor]; omega

example : ∃ r, run (fun (o c : ℕ) (_ : ℚ) => decide (o ≠ c)) (· + 1) 0 true (fuelFor 0)
    ⟨0, 0, 0, 1⟩ = some r ∧ r.nIter = 2 * 0 + 1 := by
  simpa using bound_attained (fun (o c : ℕ) (_ : ℚ) => decide (o ≠ c)) (· + 1) 0 true
    (by intro o c _ h; simpa using h) (by intro v tol _; simp) (by intro v; simp) 0 (le_refl _) 0 1
    (by decide)

/-- The reflexivity hypothesis of `terminates` is needed: with a test that also fails on
identical vectors (the coded test at a *negative* tolerance: `0 > tol`) the loop never
exits, whatever the fuel. -/
theorem no_exit_without_reflexivity (notConv : V → V → ℚ → Bool) (update : V → V) (max : ℕ)
    (adapt : Bool) (hall : ∀ o c t, notConv o c t = true) :
    ∀ (fuel : ℕ) (s : Ctl V), run notConv update max adapt fuel s = none := by
  intro fuel
  induction fuel with
  | zero => intro s; rfl
  | succ f ih => intro s; rw [run]; simp only [hall, if_true]; exact ih _

example : run (fun (_ _ : ℕ) (t : ℚ) => decide (t < 0)) (· + 1) 2 true 1000 ⟨0, -1, 0, 1⟩ = none := by
  have h : ∀ (fuel : ℕ) (s : Ctl ℕ), s.tol < 0 →
      run (fun (_ _ : ℕ) (t : ℚ) => decide (t < 0)) (· + 1) 2 true fuel s = none := by
    intro fuel
    induction fuel with
    | zero => intro s _; rfl
    | succ f ih =>
      intro s hs
      rw [run]; simp only [hs, decide_true, if_true]
      apply ih
      rcases body_tol (· + 1) 2 true s with h1 | ⟨h1, _⟩ <;> rw [h1] <;> linarith
  exact h 1000 _ (by norm_num)

/-! ## Tie to the source: the loop constants re-parsed from `fcp_tpa.py` on every run -/

/-- With the constants of the hand-written controller the parametrised body / reset are the
controller the termination theorems are about. -/
theorem coded_controller (update : V → V) (max : ℕ) (adapt : Bool) (tolOld : ℚ) (s : Ctl V) :
    bodyP codedConsts update max adapt s = body update max adapt s ∧
      resetTolP codedConsts adapt max tolOld s = resetTol adapt max tolOld s := by
  constructor
  · simp only [bodyP, body, codedConsts]
    by_cases h1 : max < s.nIter + 1 <;> by_cases h2 : s.nIter + 1 < 2 * max <;> simp [h1, h2]
  · simp only [resetTolP, resetTol, codedConsts]
    by_cases h : max ≤ s.nIter <;> simp [h]

/-- **The source says what the model says.**  The comparison operators and factors the
translator read from `FCPTPA.fit` today (`Generated/FcpLoop.lean`) are those of the controller
`terminates`, `tolerance_restored`, `fit_counts` … are proved about.  A source edit such as
`>=` for `>`, `<=` for `<`, another factor than `2` or `10` breaks this proof. -/
theorem source_controller : FDA.Generated.fcpLoop = codedConsts := by
  unfold FDA.Generated.fcpLoop codedConsts
  norm_num

/-- With the constants of the hand-written model the parametrised normalisation block is
`normImage` / `normScores` / `normEigenvalue` (about which `normalize_invariant`,
`normalize_unit_norm`, `normalize_eigenvalues` are proved). -/
theorem coded_normalisation (r : ℕ → ℚ) (E : ℕ → ℕ → ℕ → ℚ) (S lamS : ℕ → ℕ → ℚ) (lam : ℕ → ℚ) (i j k l : ℕ) :
    normImageP codedNormConsts r E k j l = normImage r E k j l ∧
      normScoresP codedNormConsts r S i k = normScores r S i k ∧
      normEigenvalueP codedNormConsts r lam k = normEigenvalue r lam k := by
  refine ⟨?_, ?_, ?_⟩
  · simp [normImageP, normImage, normDatumP, codedNormConsts, div_eq_mul_inv, zpow_neg_one]
  · simp [normScoresP, normScores, normDatumP, codedNormConsts]
  · simp only [normEigenvalueP, normEigenvalue, normDatumP, codedNormConsts]
    norm_num [zpow_ofNat]

/-- **The source's normalisation block is the model's**: test by truthiness, the norm (not its
square) on the actual grid, eigenimages `/ norm`, scores `* norm`, eigenvalues `* norm²` — as
re-parsed from `FCPTPA.fit` on this run.  `is True`, `squared=True`, `use_argvals_stand=True`,
another power or a swapped `*`/`/` break this proof. -/
theorem source_normalisation : FDA.Generated.fcpNorm = codedNormConsts := by
  unfold FDA.Generated.fcpNorm codedNormConsts
  norm_num

/-! ## Tolerance -/

/-- **The tolerance is restored** at the end of every component: whatever happened in
the loop, the coded reset gives back the tolerance the component started with. -/
theorem tolerance_restored (notConv : V → V → ℚ → Bool) (update : V → V) (max : ℕ) (adapt : Bool)
    (tol : ℚ) (old cur : V) (fuel : ℕ) (r : Ctl V)
    (h : run notConv update max adapt fuel ⟨0, tol, old, cur⟩ = some r) :
    resetTol adapt max tol r = tol := by
  apply resetTol_of_inv
  exact run_invariant notConv update max adapt (TolInv tol max adapt)
    (fun s hs _ => tolInv_body update tol max adapt s hs) fuel _ r (Or.inl rfl) h

example : resetTol true 2 (1 / 100) (⟨4, 1 / 10, 5, 5⟩ : Ctl ℕ) = 1 / 100 :=
  tolerance_restored (notConvRec fun _ => Ratio.fin (1 / 2)) (· + 1) 2 true (1 / 100) 0 1 6 _
    (by norm_num [run, body, notConvRec, Ratio.gt])

/-- Inside the loop the tolerance only ever equals the initial one, unless adaptation is
on and more than `max` updates were made. -/
theorem tolerance_changes_only_after_max (notConv : V → V → ℚ → Bool) (update : V → V) (max : ℕ)
    (adapt : Bool) (tol : ℚ) (old cur : V) (fuel : ℕ) (r : Ctl V)
    (h : run notConv update max adapt fuel ⟨0, tol, old, cur⟩ = some r) :
    r.tol = tol ∨ (adapt = true ∧ max < r.nIter) :=
  run_invariant notConv update max adapt (TolInv tol max adapt)
    (fun s hs _ => tolInv_body update tol max adapt s hs) fuel _ r (Or.inl rfl) h

/-- **All components.**  The loop over `K` components is defined (no while loop runs out
of fuel), makes at most `2·max+1` updates in each component, and hands the initial
tolerance to every component and back at the end. -/
theorem fit_counts (nz : ℕ → Bool) (notConv : ℕ → V → V → ℚ → Bool) (update : ℕ → V → V) (zero scale : V → V)
    (max : ℕ) (adapt : Bool) (hrefl : ∀ k v tol, 0 ≤ tol → notConv k v v tol = false)
    (tol : ℚ) (htol : 0 ≤ tol) :
    ∀ (K k : ℕ) (cur : V), ∃ ns t v,
      fitCtl nz notConv update zero scale max adapt K k tol cur = some (ns, t, v) ∧
      ns.length = K ∧ (∀ c ∈ ns, c ≤ 2 * max + 1) ∧ t = tol := by
  intro K
  induction K with
  | zero => intro k cur; exact ⟨[], tol, cur, rfl, rfl, by simp, rfl⟩
  | succ K ih =>
    intro k cur
    have hg : ∀ v t, 0 ≤ t → guarded (nz k) (notConv k) v v t = false := by
      intro v t ht; simp [guarded, hrefl k v t ht]
    obtain ⟨s, hs, hb⟩ := terminates (guarded (nz k) (notConv k)) (update k) max adapt hg tol htol (zero cur) cur
    have hr := tolerance_restored (guarded (nz k) (notConv k)) (update k) max adapt tol (zero cur) cur _ s hs
    obtain ⟨ns, t, v, h1, h2, h3, h4⟩ := ih (k + 1) (scale s.cur)
    refine ⟨s.nIter :: ns, t, v, ?_, by simp [h2], ?_, h4⟩
    · simp only [fitCtl, start, hs, hr, h1]
    · intro c hc
      rcases List.mem_cons.mp hc with rfl | hc
      · exact hb
      · exact h3 c hc

example : ∃ ns t v, fitCtlRec (fun _ => true) (fun _ _ => Ratio.fin (1 / 2)) 2 true 3 (1 / 100) = some (ns, t, v) ∧
    ns.length = 3 ∧ (∀ c ∈ ns, c ≤ 2 * 2 + 1) ∧ t = 1 / 100 :=
  fit_counts _ _ _ _ _ 2 true (by intro k v tol h; simp [notConvRec, not_lt.mpr h]) _ (by norm_num) 3 0 1

/-- Total number of updates of a fit: at most `K·(2·max+1)`. -/
theorem total_updates_bound (nz : ℕ → Bool) (notConv : ℕ → V → V → ℚ → Bool) (update : ℕ → V → V)
    (zero scale : V → V) (max : ℕ) (adapt : Bool)
    (hrefl : ∀ k v tol, 0 ≤ tol → notConv k v v tol = false) (tol : ℚ) (htol : 0 ≤ tol)
    (K : ℕ) (cur : V) :
    ∃ ns t v, fitCtl nz notConv update zero scale max adapt K 0 tol cur = some (ns, t, v) ∧
      ns.sum ≤ K * (2 * max + 1) := by
  obtain ⟨ns, t, v, h1, h2, h3, _⟩ := fit_counts nz notConv update zero scale max adapt hrefl tol htol K 0 cur
  refine ⟨ns, t, v, h1, ?_⟩
  have := List.sum_le_card_nsmul ns (2 * max + 1) h3
  simpa [h2] using this

/-! ## Rank-one deflation -/

/-- The squared norm of a rank-one tensor is the product of the squared vector norms;
three unit vectors give a unit tensor. -/
theorem rank_one_norm (n m₁ m₂ : ℕ) (T : Comp) :
    energy n m₁ m₂ (outer3 T) = dot n T.u T.u * dot m₁ T.v T.v * dot m₂ T.w T.w :=
  ip3_outer3_self n m₁ m₂ T

/-- One deflation step without any assumption on the vectors:
`‖R − cT‖² = ‖R‖² − c²(2 − ‖T‖²)` for the coded coefficient `c = ⟨R, T⟩`
(the identity the correspondence checks exactly on the recorded float vectors). -/
theorem deflation_energy_general (n m₁ m₂ : ℕ) (R : T3) (T : Comp) :
    energy n m₁ m₂ (rd3 (deflate1 n m₁ m₂ R T))
      = energy n m₁ m₂ (rd3 R) - coef n m₁ m₂ (rd3 R) T ^ 2 * (2 - tau n m₁ m₂ T) :=
  energy_deflate1 n m₁ m₂ R T

/-- **Deflation energy.**  With a unit-norm rank-one tensor the residual loses exactly
`c²`. -/
theorem deflation_energy (n m₁ m₂ : ℕ) (R : T3) (T : Comp) (hT : tau n m₁ m₂ T = 1) :
    energy n m₁ m₂ (rd3 (deflate1 n m₁ m₂ R T))
      = energy n m₁ m₂ (rd3 R) - coef n m₁ m₂ (rd3 R) T ^ 2 := by
  rw [energy_deflate1, hT]; ring

/-- A concrete unit component (first basis vectors) for the non-vacuity examples. -/
def e0 : Comp := ⟨fun i => if i = 0 then 1 else 0, fun i => if i = 0 then 1 else 0,
  fun i => if i = 0 then 1 else 0⟩

theorem tau_e0 : tau 2 3 4 e0 = 1 := by
  simp [tau, dot, e0]

example (R : T3) : energy 2 3 4 (rd3 (deflate1 2 3 4 R e0)) = energy 2 3 4 (rd3 R) - coef 2 3 4 (rd3 R) e0 ^ 2 :=
  deflation_energy 2 3 4 R e0 tau_e0

/-- The coefficient is the projection of the current residual: after the step the
residual is orthogonal to the extracted tensor. -/
theorem residual_orthogonal (n m₁ m₂ : ℕ) (R : T3) (T : Comp) (hT : tau n m₁ m₂ T = 1) :
    coef n m₁ m₂ (rd3 (deflate1 n m₁ m₂ R T)) T = 0 := by
  rw [coef_deflate1, hT]; ring

/-- … and it is the best coefficient: no other multiple of the unit tensor leaves a smaller
residual (greedy step). -/
theorem projection_optimal (n m₁ m₂ : ℕ) (R : T3) (T : Comp) (hT : tau n m₁ m₂ T = 1) (a : ℚ) :
    energy n m₁ m₂ (rd3 (deflate1 n m₁ m₂ R T))
      ≤ energy n m₁ m₂ (fun i j k => rd3 R i j k - a * outer3 T i j k) := by
  rw [deflation_energy n m₁ m₂ R T hT, energy_sub_smul, ip3_outer3_self, hT]
  unfold coef
  nlinarith [sq_nonneg (a - ip3 n m₁ m₂ (rd3 R) (outer3 T))]

/-- **Energy identity** (induction over the components): after `K` unit components
`‖R_K‖² = ‖X‖² − Σ_{k<K} c_k²`. -/
theorem energy_identity (n m₁ m₂ : ℕ) (X : T3) (T : ℕ → Comp) (K : ℕ)
    (hunit : ∀ k < K, tau n m₁ m₂ (T k) = 1) :
    energy n m₁ m₂ (rd3 (resid n m₁ m₂ X T K))
      = energy n m₁ m₂ (rd3 X) - ∑ k ∈ range K, coefAt n m₁ m₂ X T k ^ 2 := by
  induction K with
  | zero => simp [resid]
  | succ K ih =>
    rw [resid, deflation_energy _ _ _ _ _ (hunit K (Nat.lt_succ_self K)),
      ih (fun k hk => hunit k (Nat.lt_succ_of_lt hk)), Finset.sum_range_succ]
    unfold coefAt
    ring

example (X : T3) : energy 2 3 4 (rd3 (resid 2 3 4 X (fun _ => e0) 3))
    = energy 2 3 4 (rd3 X) - ∑ k ∈ range 3, coefAt 2 3 4 X (fun _ => e0) k ^ 2 :=
  energy_identity 2 3 4 X _ 3 (fun _ _ => tau_e0)

/-- **The error never increases** with the number of components. -/
theorem error_monotone (n m₁ m₂ : ℕ) (X : T3) (T : ℕ → Comp) (K : ℕ)
    (hunit : tau n m₁ m₂ (T K) = 1) :
    energy n m₁ m₂ (rd3 (resid n m₁ m₂ X T (K + 1))) ≤ energy n m₁ m₂ (rd3 (resid n m₁ m₂ X T K)) := by
  rw [resid, deflation_energy _ _ _ _ _ hunit]
  nlinarith [sq_nonneg (coef n m₁ m₂ (rd3 (resid n m₁ m₂ X T K)) (T K))]

/-- Bessel: the squared coefficients never add up to more than the energy of the data. -/
theorem coefficients_bounded (n m₁ m₂ : ℕ) (X : T3) (T : ℕ → Comp) (K : ℕ)
    (hunit : ∀ k < K, tau n m₁ m₂ (T k) = 1) :
    ∑ k ∈ range K, coefAt n m₁ m₂ X T k ^ 2 ≤ energy n m₁ m₂ (rd3 X) := by
  have h := energy_identity n m₁ m₂ X T K hunit
  have := energy_nonneg n m₁ m₂ (rd3 (resid n m₁ m₂ X T K))
  linarith

/-- **Reconstruction from the scores**: `inverse_transform(_scores) = Σ_k c_k u_k⊗v_k⊗w_k`,
i.e. data minus reconstruction is the residual after `K` deflations (no assumption on
the vectors). -/
theorem reconstruction_from_scores (n m₁ m₂ : ℕ) (X : T3) (T : ℕ → Comp) (K : ℕ) {i j l : ℕ}
    (hi : i < n) (hj : j < m₁) (hl : l < m₂) :
    rd3 X i j l - inverseTransform K (scores (coefAt n m₁ m₂ X T) T) (eigenimage T) i j l
      = rd3 (resid n m₁ m₂ X T K) i j l := by
  rw [sum_resid n m₁ m₂ X T K hi hj hl]
  congr 1
  unfold inverseTransform scores eigenimage outer3
  apply Finset.sum_congr rfl; intro k _
  ring

/-- The squared reconstruction error from the algorithm's own scores is
`‖X‖² − Σ c_k²`. -/
theorem reconstruction_error (n m₁ m₂ : ℕ) (X : T3) (T : ℕ → Comp) (K : ℕ)
    (hunit : ∀ k < K, tau n m₁ m₂ (T k) = 1) :
    energy n m₁ m₂ (fun i j l => rd3 X i j l
        - inverseTransform K (scores (coefAt n m₁ m₂ X T) T) (eigenimage T) i j l)
      = energy n m₁ m₂ (rd3 X) - ∑ k ∈ range K, coefAt n m₁ m₂ X T k ^ 2 := by
  rw [← energy_identity n m₁ m₂ X T K hunit]
  unfold energy
  exact ip3_congr (fun i hi j hj l hl => reconstruction_from_scores n m₁ m₂ X T K hi hj hl)
    (fun i hi j hj l hl => reconstruction_from_scores n m₁ m₂ X T K hi hj hl)

/-- Scores and eigenvalues: column `k` of the scores is `c_k u_k`, its variance
(`eigenvalues[k]`) is `c_k²·var(u_k)`. -/
theorem eigenvalue_of_scores (n : ℕ) (c : ℕ → ℚ) (T : ℕ → Comp) (k : ℕ) :
    popVar n (fun i => scores c T i k) = popVar n (T k).u * c k ^ 2 := by
  unfold scores
  have : (fun i => c k * (T k).u i) = fun i => (T k).u i * c k := by funext i; ring
  rw [this, popVar_mul]

/-! ## Normalisation option -/

/-- **Normalisation does not change reconstructions.** -/
theorem normalize_invariant (K : ℕ) (r : ℕ → ℚ) (S : ℕ → ℕ → ℚ) (E : ℕ → ℕ → ℕ → ℚ)
    (hr : ∀ k < K, r k ≠ 0) (i j l : ℕ) :
    inverseTransform K (normScores r S) (normImage r E) i j l = inverseTransform K S E i j l := by
  unfold inverseTransform normScores normImage
  apply Finset.sum_congr rfl; intro k hk
  have := hr k (mem_range.mp hk)
  field_simp

example : inverseTransform 2 (normScores (fun _ => 3) fun i k => i + k) (normImage (fun _ => 3) fun k j l => k + j * l) 1 2 3
    = inverseTransform 2 (fun i k => i + k) (fun k j l => k + j * l) 1 2 3 :=
  normalize_invariant 2 _ _ _ (by intro k _; norm_num) 1 2 3

/-- **Normalised eigenimages have unit L² norm** (`r k` is the norm: `r k ^ 2` = squared
L² norm on the grid, non-zero). -/
theorem normalize_unit_norm (m₁ m₂ : ℕ) (t₁ t₂ : ℕ → ℚ) (r : ℕ → ℚ) (E : ℕ → ℕ → ℕ → ℚ) (k : ℕ)
    (hr : r k ^ 2 = normSq2 m₁ m₂ t₁ t₂ (E k)) (h0 : r k ≠ 0) :
    normSq2 m₁ m₂ t₁ t₂ (normImage r E k) = 1 := by
  unfold normSq2 at *
  have : (fun a b => normImage r E k a b * normImage r E k a b)
      = fun a b => (1 / r k ^ 2) * (E k a b * E k a b) := by
    funext a b; unfold normImage; field_simp
  rw [this, integrate2_smul, ← hr]
  field_simp

example : normSq2 2 2 (fun i => i) (fun i => i) (normImage (fun _ => 2) (fun _ _ _ => 2) 0) = 1 :=
  normalize_unit_norm 2 2 _ _ _ _ 0 (by simp [normSq2, integrate2, trapz]; norm_num) (by norm_num)

/-- **Eigenvalues are scaled by the squared norm** under normalisation (they remain the
variances of the normalised scores). -/
theorem normalize_eigenvalues (n : ℕ) (r : ℕ → ℚ) (S : ℕ → ℕ → ℚ) (k : ℕ) :
    popVar n (fun i => normScores r S i k) = normEigenvalue r (fun c => popVar n fun i => S i c) k := by
  unfold normScores normEigenvalue
  rw [popVar_mul]

/-! ## Inside one pass of `_update_components`

The linear solver of `_update_vector` is a parameter with the contract `IsUpdate`
(`(I+αΩ)(d·out) = b`); the correspondence evaluates its residual exactly on recorded calls. -/

open FDA.MFPCA (mulVec bil) in
/-- `_compute_denominator(a, α, Ω) = aᵀ(I+αΩ)a = ‖a‖² + α·aᵀΩa`; for `α ≥ 0` and a positive
semi-definite penalty it is at least `‖a‖²` (so the divisors of the updates vanish only for the
zero vector — the cause of the open finding). -/
theorem compute_denominator_spec (m : ℕ) (α : ℚ) (Ω : ℕ → ℕ → ℚ) (a : ℕ → ℚ) :
    computeDenominator m α Ω a = FDA.MFPCA.dot m a a + α * bil m Ω a a ∧
      (0 ≤ α → 0 ≤ bil m Ω a a → FDA.MFPCA.dot m a a ≤ computeDenominator m α Ω a) := by
  have h : computeDenominator m α Ω a = FDA.MFPCA.dot m a a + α * bil m Ω a a := by
    rw [computeDenominator_eq, bil_smat]
  refine ⟨h, fun hα hΩ => ?_⟩
  rw [h]; nlinarith [mul_nonneg hα hΩ]

open FDA.MFPCA (mulVec bil) in
/-- **One block update is the best fit in that mode.**  For a symmetric penalty, `α ≥ 0`,
`Ω` positive semi-definite and a non-negative divisor `d`, any solution `x*` of the coded
normal equations `(I+αΩ)(d·x*) = b` minimises the block objective `d·xᵀ(I+αΩ)x − 2xᵀb`; the
excess of any other `x` is exactly `d·(x−x*)ᵀ(I+αΩ)(x−x*)`. -/
theorem update_minimises (m : ℕ) (α : ℚ) (Ω : ℕ → ℕ → ℚ) (hΩ : ∀ i < m, ∀ j < m, Ω i j = Ω j i)
    (hα : 0 ≤ α) (hpsd : ∀ y : ℕ → ℚ, 0 ≤ bil m Ω y y) (b : ℕ → ℚ) (d : ℚ) (hd : 0 ≤ d)
    (xs : ℕ → ℚ) (hs : IsUpdate m α Ω b d xs) (x : ℕ → ℚ) :
    blockObjective m α Ω b d xs ≤ blockObjective m α Ω b d x := by
  have h := blockObjective_sub m α Ω hΩ b d xs hs x
  have hq : 0 ≤ bil m (smat α Ω) (fun i => x i - xs i) (fun i => x i - xs i) := by
    rw [bil_smat]
    have h1 : 0 ≤ FDA.MFPCA.dot m (fun i => x i - xs i) (fun i => x i - xs i) := by
      unfold FDA.MFPCA.dot; exact Finset.sum_nonneg fun i _ => mul_self_nonneg _
    nlinarith [mul_nonneg hα (hpsd fun i => x i - xs i)]
  nlinarith [mul_nonneg hd hq]

example : blockObjective 1 2 (fun _ _ => 1) (fun _ => 6) 1 (fun _ => 2)
    ≤ blockObjective 1 2 (fun _ _ => 1) (fun _ => 6) 1 (fun _ => 5) :=
  update_minimises 1 2 (fun _ _ => 1) (by intro i _ j _; rfl) (by norm_num)
    (by intro y; simp [FDA.MFPCA.bil, FDA.MFPCA.dot, FDA.MFPCA.mulVec]; exact mul_self_nonneg _)
    (fun _ => 6) 1 (by norm_num) (fun _ => 2)
    (by intro i hi
        have : i = 0 := by omega
        subst this
        simp [FDA.MFPCA.mulVec, smat]; norm_num) _

open FDA.MFPCA (mulVec bil) in
/-- **Uniqueness of the update**: for `α ≥ 0`, a symmetric positive semi-definite penalty and
`d ≠ 0` the normal equations have at most one solution on `range m` (the matrix `I+αΩ` is
positive definite). -/
theorem update_unique (m : ℕ) (α : ℚ) (Ω : ℕ → ℕ → ℚ) (hΩ : ∀ i < m, ∀ j < m, Ω i j = Ω j i)
    (hα : 0 ≤ α) (hpsd : ∀ y : ℕ → ℚ, 0 ≤ bil m Ω y y) (b : ℕ → ℚ) (d : ℚ) (hd : d ≠ 0)
    (x y : ℕ → ℚ) (hx : IsUpdate m α Ω b d x) (hy : IsUpdate m α Ω b d y) :
    ∀ i < m, x i = y i := by
  -- both minimise the objective of the problem with divisor d²-sign handled through the excess identity
  have h1 := blockObjective_sub m α Ω hΩ b d y hy x
  have h2 := blockObjective_sub m α Ω hΩ b d x hx y
  have e : bil m (smat α Ω) (fun i => y i - x i) (fun i => y i - x i)
      = bil m (smat α Ω) (fun i => x i - y i) (fun i => x i - y i) := by
    rw [bil_sub_sub, bil_sub_sub]; ring
  rw [e] at h2
  have hz : d * bil m (smat α Ω) (fun i => x i - y i) (fun i => x i - y i) = 0 := by linarith
  have hq : bil m (smat α Ω) (fun i => x i - y i) (fun i => x i - y i) = 0 := by
    rcases mul_eq_zero.mp hz with h | h
    · exact absurd h hd
    · exact h
  rw [bil_smat] at hq
  have hdot : FDA.MFPCA.dot m (fun i => x i - y i) (fun i => x i - y i) = 0 := by
    have h1 : 0 ≤ FDA.MFPCA.dot m (fun i => x i - y i) (fun i => x i - y i) := by
      unfold FDA.MFPCA.dot; exact Finset.sum_nonneg fun i _ => mul_self_nonneg _
    nlinarith [mul_nonneg hα (hpsd fun i => x i - y i)]
  intro i hi
  unfold FDA.MFPCA.dot at hdot
  have := (Finset.sum_eq_zero_iff_of_nonneg (fun i _ => mul_self_nonneg (x i - y i))).mp hdot i
    (mem_range.mpr hi)
  have : x i - y i = 0 := mul_self_eq_zero.mp this
  linarith

open FDA.MFPCA (mulVec bil) in
/-- The penalised rank-one objective, seen as a function of `v` alone, is the block objective
of the `v` update with `b = einsum("i,j,ikj->k", u, w, R)` and `d = (uᵀu)(wᵀS_w w)` — the
divisor the code computes as `u_cross * w_cross`. -/
theorem objective_block_v (n m₁ m₂ : ℕ) (R : ℕ → ℕ → ℕ → ℚ) (αv αw : ℚ) (Ωv Ωw : ℕ → ℕ → ℚ) (T : Comp) :
    penObjective n m₁ m₂ R αv αw Ωv Ωw T
      = energy n m₁ m₂ R + blockObjective m₁ αv Ωv (powerV n m₂ R T.u T.w)
          (dot n T.u T.u * bil m₂ (smat αw Ωw) T.w T.w) T.v := by
  unfold penObjective blockObjective
  rw [coef_eq_dot_powerV]; ring

open FDA.MFPCA (mulVec bil) in
/-- Same for `w` (`d = u_cross * v_cross`). -/
theorem objective_block_w (n m₁ m₂ : ℕ) (R : ℕ → ℕ → ℕ → ℚ) (αv αw : ℚ) (Ωv Ωw : ℕ → ℕ → ℚ) (T : Comp) :
    penObjective n m₁ m₂ R αv αw Ωv Ωw T
      = energy n m₁ m₂ R + blockObjective m₂ αw Ωw (powerW n m₁ R T.u T.v)
          (dot n T.u T.u * bil m₁ (smat αv Ωv) T.v T.v) T.w := by
  unfold penObjective blockObjective
  rw [coef_eq_dot_powerW]; ring

open FDA.MFPCA (mulVec bil) in
/-- Same for `u`, which is not penalised (`α = 0`, `d = v_cross * w_cross`). -/
theorem objective_block_u (n m₁ m₂ : ℕ) (R : ℕ → ℕ → ℕ → ℚ) (αv αw : ℚ) (Ωv Ωw : ℕ → ℕ → ℚ) (T : Comp) :
    penObjective n m₁ m₂ R αv αw Ωv Ωw T
      = energy n m₁ m₂ R + blockObjective n 0 (fun _ _ => 0) (powerU m₁ m₂ R T.v T.w)
          (bil m₁ (smat αv Ωv) T.v T.v * bil m₂ (smat αw Ωw) T.w T.w) T.u := by
  have hu : bil n (smat 0 fun _ _ => 0) T.u T.u = FDA.MFPCA.dot n T.u T.u := by
    rw [bil_smat]; ring
  have : dot n T.u T.u = FDA.MFPCA.dot n T.u T.u := rfl
  unfold penObjective blockObjective
  rw [coef_eq_dot_powerU, hu, this]; ring

open FDA.MFPCA (mulVec bil) in
/-- **Monotone decrease (fixed smoothing parameters).**  Replacing `v` by the output of its
update (any solution of the coded normal equations with the coded divisor) does not increase
the penalised objective; likewise for `w` and `u` by the two theorems above.  (The GCV step
changes `α` between the block updates, so a decrease along whole iterations is not claimed.) -/
theorem update_decreases_objective (n m₁ m₂ : ℕ) (R : ℕ → ℕ → ℕ → ℚ) (αv αw : ℚ) (Ωv Ωw : ℕ → ℕ → ℚ)
    (hΩ : ∀ i < m₁, ∀ j < m₁, Ωv i j = Ωv j i) (hα : 0 ≤ αv) (hpsd : ∀ y : ℕ → ℚ, 0 ≤ bil m₁ Ωv y y)
    (T : Comp) (hd : 0 ≤ dot n T.u T.u * bil m₂ (smat αw Ωw) T.w T.w) (v' : ℕ → ℚ)
    (hup : IsUpdate m₁ αv Ωv (powerV n m₂ R T.u T.w) (dot n T.u T.u * bil m₂ (smat αw Ωw) T.w T.w) v') :
    penObjective n m₁ m₂ R αv αw Ωv Ωw ⟨T.u, v', T.w⟩ ≤ penObjective n m₁ m₂ R αv αw Ωv Ωw T := by
  rw [objective_block_v, objective_block_v]
  have := update_minimises m₁ αv Ωv hΩ hα hpsd _ _ hd v' hup T.v
  simpa using this

/-! ## New data: `transform` and `inverse_transform` -/

/-- `transform(data, "NumInt")` is linear in the data. -/
theorem transform_numint_linear (m₁ m₂ : ℕ) (dv : ℚ) (X Y E : ℕ → ℕ → ℕ → ℚ) (a b : ℚ) (i k : ℕ) :
    transformNumInt m₁ m₂ dv (fun i j l => a * X i j l + b * Y i j l) E i k
      = a * transformNumInt m₁ m₂ dv X E i k + b * transformNumInt m₁ m₂ dv Y E i k := by
  unfold transformNumInt
  rw [mul_div_assoc', mul_div_assoc', ← add_div]
  congr 1
  rw [Finset.mul_sum, Finset.mul_sum, ← Finset.sum_add_distrib]
  apply Finset.sum_congr rfl; intro j _
  rw [Finset.mul_sum, Finset.mul_sum, ← Finset.sum_add_distrib]
  apply Finset.sum_congr rfl; intro l _
  ring

/-- NumInt scores of a reconstruction: `transform(inverse_transform(S)) = S·G/div` with `G` the
Frobenius Gram matrix of the eigenimages — the round trip is the identity exactly when the
eigenimages are orthonormal for that inner product (FCP-TPA does not enforce it). -/
theorem numint_of_reconstruction (K m₁ m₂ : ℕ) (dv : ℚ) (S : ℕ → ℕ → ℚ) (E : ℕ → ℕ → ℕ → ℚ) (i k : ℕ) :
    transformNumInt m₁ m₂ dv (inverseTransform K S E) E i k
      = (∑ c ∈ range K, S i c * ∑ j ∈ range m₁, ∑ l ∈ range m₂, E c j l * E k j l) / dv := by
  unfold transformNumInt inverseTransform
  congr 1
  simp_rw [Finset.sum_mul, Finset.mul_sum]
  have h : ∀ j ∈ range m₁, ∑ l ∈ range m₂, ∑ c ∈ range K, S i c * E c j l * E k j l
      = ∑ c ∈ range K, ∑ l ∈ range m₂, S i c * E c j l * E k j l := fun j _ => Finset.sum_comm
  rw [Finset.sum_congr rfl h, Finset.sum_comm]
  apply Finset.sum_congr rfl; intro c _
  apply Finset.sum_congr rfl; intro j _
  apply Finset.sum_congr rfl; intro l _
  ring

/-- `inverse_transform` is linear in an arbitrary score matrix. -/
theorem inverse_transform_linear (K : ℕ) (S S' : ℕ → ℕ → ℚ) (E : ℕ → ℕ → ℕ → ℚ) (a b : ℚ) (i j l : ℕ) :
    inverseTransform K (fun i k => a * S i k + b * S' i k) E i j l
      = a * inverseTransform K S E i j l + b * inverseTransform K S' E i j l := by
  unfold inverseTransform
  rw [Finset.mul_sum, Finset.mul_sum, ← Finset.sum_add_distrib]
  apply Finset.sum_congr rfl; intro k _; ring

/-! ## The zero-residual guard (repair 5419aa3) and what remains open

Before the repair the update step was evaluated on every residual; on an exactly zero residual
it computes `u = 0` and then divides by `uᵀu = 0` (finding `C17-zero-residual-nan`, fixed).  The
repaired while-condition is `values.any() and any(…)` (`guarded`): a component whose residual is
exactly zero performs no update, keeps the previous unit vectors and gets coefficient `0`. -/

/-- What the property needs on an exactly zero residual: the loop evaluates NO update (so no
division by `uᵀu = 0` can happen), and the component built from the previous unit vectors has
coefficient `0` — the projection of the zero residual — and leaves the residual zero. -/
def full_statement : Prop :=
  (∀ (V : Type) (notConv : V → V → ℚ → Bool) (update : V → V) (max : ℕ) (adapt : Bool) (fuel : ℕ)
      (s : Ctl V), run (guarded false notConv) update max adapt (fuel + 1) s = some s) ∧
  (∀ (n m₁ m₂ : ℕ) (R : T3) (T : Comp),
      (∀ i < n, ∀ j < m₁, ∀ k < m₂, rd3 R i j k = 0) →
      coef n m₁ m₂ (rd3 R) T = 0 ∧
        ∀ i < n, ∀ j < m₁, ∀ k < m₂, rd3 (deflate1 n m₁ m₂ R T) i j k = 0)

/-- **The repaired loop meets it** (every vector type, oracle, limit; every shape). -/
theorem zero_residual_component : full_statement := by
  refine ⟨?_, ?_⟩
  · intro V notConv update max adapt fuel s
    simp [run, guarded]
  · intro n m₁ m₂ R T hR
    have hc : coef n m₁ m₂ (rd3 R) T = 0 := by
      unfold coef ip3
      apply Finset.sum_eq_zero; intro i hi
      apply Finset.sum_eq_zero; intro j hj
      apply Finset.sum_eq_zero; intro k hk
      rw [hR i (mem_range.mp hi) j (mem_range.mp hj) k (mem_range.mp hk)]; ring
    refine ⟨hc, ?_⟩
    intro i hi j hj k hk
    rw [rd3_deflate1 R T hi hj hk, hc, hR i hi j hj k hk]; ring

/-- With the guard on (`nz = true`) the loop is the unguarded one: all theorems above apply to
components with a non-zero residual unchanged. -/
theorem guarded_true (notConv : V → V → ℚ → Bool) : guarded true notConv = notConv := by
  funext o c t; simp [guarded]

/-- The statement the code had to meet BEFORE the repair (the update evaluated on every
residual): the divisor `uᵀu` of the `v`/`w` updates is never zero. -/
def full_statement_before_repair : Prop :=
  ∀ (n m₁ m₂ : ℕ) (R : ℕ → ℕ → ℕ → ℚ) (v w : ℕ → ℚ) (d : ℚ), d ≠ 0 → uCross n m₁ m₂ R v w d ≠ 0

/-- The divisor is positive as soon as the contraction of the residual with `v`, `w` is not the
zero vector — the domain on which the update step is defined.  (Still the partial statement for
the open finding `C17-zero-contraction-nan`: a NON-zero residual whose contraction with the
current `v`, `w` is exactly zero passes the guard and divides `0/0`.) -/
theorem update_defined_partial (n m₁ m₂ : ℕ) (R : ℕ → ℕ → ℕ → ℚ) (v w : ℕ → ℚ) (d : ℚ) (hd : d ≠ 0)
    (h : ∃ i < n, powerU m₁ m₂ R v w i ≠ 0) : 0 < uCross n m₁ m₂ R v w d := by
  obtain ⟨i, hi, hne⟩ := h
  unfold uCross dot
  apply Finset.sum_pos'
  · intro j _; exact mul_self_nonneg _
  · refine ⟨i, mem_range.mpr hi, ?_⟩
    have : updateU m₁ m₂ R v w d i ≠ 0 := by unfold updateU; exact div_ne_zero hne hd
    exact mul_self_pos.mpr this

example : 0 < uCross 1 1 1 (fun _ _ _ => 2) (fun _ => 1) (fun _ => 1) 1 :=
  update_defined_partial 1 1 1 _ _ _ 1 one_ne_zero ⟨0, Nat.zero_lt_one, by simp [powerU]⟩

/-- The pre-repair controller violated its statement: on a zero residual (2×3×4, the shape of
the replayed witness of the fixed finding) the divisor is `0`. -/
theorem coded_before_repair_counterexample : ¬ full_statement_before_repair := by
  intro h
  apply h 2 3 4 (fun _ _ _ => 0) (fun _ => 1) (fun _ => 1) 1 one_ne_zero
  simp [uCross, updateU, powerU, dot]

/-- Open finding `C17-zero-contraction-nan`, exact witness shape: a NON-zero residual (one
image with the single non-zero column `(−5/2, 49/8, 0)`, one zero image) whose contraction with
`v = (1,0,0)`, `w = (1,0,0)` vanishes: the guard lets it through and the divisor is `0`. -/
theorem counterexample :
    (∃ i < 2, ∃ j < 3, ∃ k < 3, (fun i j k => if i = 0 ∧ k = 1 then (if j = 0 then (-5 / 2 : ℚ) else if j = 1 then 49 / 8 else 0) else 0) i j k ≠ 0) ∧
      uCross 2 3 3 (fun i j k => if i = 0 ∧ k = 1 then (if j = 0 then (-5 / 2 : ℚ) else if j = 1 then 49 / 8 else 0) else 0)
        (fun j => if j = 0 then 1 else 0) (fun k => if k = 0 then 1 else 0) 1 = 0 := by
  refine ⟨⟨0, by norm_num, 0, by norm_num, 1, by norm_num, by norm_num⟩, ?_⟩
  simp [uCross, updateU, powerU, dot, Finset.sum_range_succ]

end C17
