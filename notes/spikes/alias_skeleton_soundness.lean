/-! C16 spike: aliasing skeletons, a syntactic freshness check, and its soundness.  Import-free. -/




structure Cell where
  data   : Nat              -- abstract content version
  fields : List Nat
deriving DecidableEq, Repr

structure Heap where
  cell : Nat → Cell
  next : Nat                 -- first unallocated reference

inductive Stmt
  | alloc (dst : Nat)                          -- dst := new object / array
  | load (dst src : Nat) (field : Nat)         -- dst := src.field   (may alias anything)
  | move (dst src : Nat)                       -- dst := src
  | setField (obj : Nat) (fields : List Nat)   -- obj.fields := values of those variables
  | writeData (obj : Nat) (v : Nat)            -- in-place write into obj's buffer
deriving Repr

abbrev Env := Nat → Nat

def upd (e : Env) (v : Nat) (r : Nat) : Env := fun x => if x = v then r else e x
def hupd (h : Heap) (r : Nat) (c : Cell) : Heap := { h with cell := fun x => if x = r then c else h.cell x }

def exec1 (s : Stmt) (e : Env) (h : Heap) : Env × Heap :=
  match s with
  | .alloc d => (upd e d h.next, { cell := fun x => if x = h.next then ⟨0, []⟩ else h.cell x, next := h.next + 1 })
  | .load d s f => (upd e d (((h.cell (e s)).fields)[f]?.getD 0), h)
  | .move d s => (upd e d (e s), h)
  | .setField o fs => (e, hupd h (e o) { (h.cell (e o)) with fields := fs.map e })
  | .writeData o v => (e, hupd h (e o) { (h.cell (e o)) with data := v })

def exec : List Stmt → Env → Heap → Env × Heap
  | [], e, h => (e, h)
  | s :: ss, e, h => let (e', h') := exec1 s e h; exec ss e' h'

/-- syntactic discipline: writes only through variables bound by `alloc` in this call -/
def check : List Stmt → List Nat → Bool
  | [], _ => true
  | .alloc d :: ss, fresh => check ss (d :: fresh)
  | .load d _ _ :: ss, fresh => check ss (fresh.filter (· != d))
  | .move d s :: ss, fresh => check ss (if fresh.contains s then d :: fresh else fresh.filter (· != d))
  | .setField o _ :: ss, fresh => fresh.contains o && check ss fresh
  | .writeData o _ :: ss, fresh => fresh.contains o && check ss fresh

/-- invariant: variables recorded as fresh point above the initial heap frontier `n0` -/
def FreshOK (fresh : List Nat) (e : Env) (n0 : Nat) : Prop := ∀ v ∈ fresh, n0 ≤ e v

theorem soundness (prog : List Stmt) :
    ∀ (fresh : List Nat) (e : Env) (h : Heap) (n0 : Nat),
      check prog fresh = true → FreshOK fresh e n0 → n0 ≤ h.next →
      ∀ r, r < n0 → (exec prog e h).2.cell r = h.cell r := by
  induction prog with
  | nil => intro fresh e h n0 _ _ _ r _; rfl
  | cons s ss ih =>
    intro fresh e h n0 hc hf hn r hr
    cases s with
    | alloc d =>
      simp only [check] at hc
      simp only [exec, exec1]
      rw [ih (d :: fresh) _ _ n0 hc ?_ (by simp; omega) r hr]
      · have : r ≠ h.next := by omega
        simp [this]
      · intro v hv
        simp only [List.mem_cons] at hv
        by_cases hvd : v = d
        · simp [upd, hvd]; exact hn
        · rcases hv with h1 | h1
          · exact absurd h1 hvd
          · simp [upd, hvd]; exact hf v h1
    | load d s f =>
      simp only [check] at hc
      simp only [exec, exec1]
      rw [ih _ _ _ n0 hc ?_ hn r hr]
      intro v hv
      have hv' := List.mem_filter.1 hv
      have hvd : v ≠ d := by simpa using hv'.2
      simp [upd, hvd]; exact hf v hv'.1
    | move d s =>
      simp only [check] at hc
      simp only [exec, exec1]
      rw [ih _ _ _ n0 hc ?_ hn r hr]
      intro v hv
      by_cases hs : fresh.contains s = true
      · simp only [hs, ↓reduceIte, List.mem_cons] at hv
        by_cases hvd : v = d
        · simp [upd, hvd]; exact hf s (by simpa using hs)
        · rcases hv with h1 | h1
          · exact absurd h1 hvd
          · simp [upd, hvd]; exact hf v h1
      · simp only [hs, Bool.false_eq_true, ↓reduceIte] at hv
        have hv' := List.mem_filter.1 hv
        have hvd : v ≠ d := by simpa using hv'.2
        simp [upd, hvd]; exact hf v hv'.1
    | setField o fs =>
      simp only [check, Bool.and_eq_true] at hc
      simp only [exec, exec1]
      have ho : n0 ≤ e o := hf o (by simpa using hc.1)
      rw [ih fresh e _ n0 hc.2 hf (by simpa [hupd] using hn) r hr]
      have : r ≠ e o := by omega
      simp [hupd, this]
    | writeData o v =>
      simp only [check, Bool.and_eq_true] at hc
      simp only [exec, exec1]
      have ho : n0 ≤ e o := hf o (by simpa using hc.1)
      rw [ih fresh e _ n0 hc.2 hf (by simpa [hupd] using hn) r hr]
      have : r ≠ e o := by omega
      simp [hupd, this]

/-- `BasisFunctionalData.standardize` as coded: `fdata = center(self)` shares `self.basis`;
    then `fdata.basis.values = new` writes through the shared basis object. -/
def skelStandardizeImpl : List Stmt :=
  [ .load 1 0 0,            -- v1 := self.basis            (old object)
    .alloc 2,               -- v2 := centred coefficients  (fresh)
    .alloc 3,               -- v3 := fdata                 (fresh object)
    .setField 3 [1, 2],     -- fdata.basis := self.basis ; fdata.coefficients := v2
    .alloc 4,               -- v4 := new basis values      (fresh array)
    .setField 1 [4] ]       -- fdata.basis.values := v4    (WRITE TO OLD OBJECT)

def skelStandardizeSpec : List Stmt :=
  [ .load 1 0 0, .alloc 2, .alloc 3, .setField 3 [1, 2], .alloc 4,
    .alloc 5,               -- new basis object
    .setField 5 [4],        -- newbasis.values := v4
    .alloc 6, .setField 6 [5, 2] ]

example : check skelStandardizeImpl [] = false := by decide
example : check skelStandardizeSpec [] = true := by decide

#print axioms soundness
