import Mathlib.Data.Matrix.Mul
import Mathlib.Data.Matrix.Diagonal
import Mathlib.Algebra.BigOperators.Field
import Mathlib.Tactic.Ring
import Mathlib.Tactic.Linarith
import Mathlib.Tactic.FieldSimp
import Mathlib.Data.Rat.Defs
import Mathlib.Algebra.Order.Field.Basic

open Matrix Finset

variable {m k : ℕ}

/-- back-transformed eigenfunctions: φ = S⁻¹ u, with S = diag(s), s² = w -/
def backTransform (s : Fin m → ℚ) (U : Matrix (Fin m) (Fin k) ℚ) : Matrix (Fin k) (Fin m) ℚ :=
  fun a j => U j a / s j

/-- C02.orthonormal_w : UᵀU = I  →  Σ_j w_j φ_a(t_j) φ_b(t_j) = δ_ab -/
theorem orthonormal_w (s w : Fin m → ℚ) (hs : ∀ j, s j * s j = w j) (hpos : ∀ j, s j ≠ 0)
    (U : Matrix (Fin m) (Fin k) ℚ) (hU : Uᵀ * U = 1) (a b : Fin k) :
    ∑ j, w j * backTransform s U a j * backTransform s U b j = if a = b then 1 else 0 := by
  have h := congrFun (congrFun hU a) b
  simp only [Matrix.mul_apply, Matrix.transpose_apply, Matrix.one_apply] at h
  rw [← h]
  apply Finset.sum_congr rfl
  intro j _
  unfold backTransform
  rw [← hs j]
  field_simp [hpos j]

/-- C02.eigen_equation : (S C S) u = λ u  →  Σ_j C_ij w_j φ(t_j) = λ φ(t_i) -/
theorem eigen_equation (s w : Fin m → ℚ) (hs : ∀ j, s j * s j = w j) (hpos : ∀ j, s j ≠ 0)
    (C : Matrix (Fin m) (Fin m) ℚ) (u : Fin m → ℚ) (lam : ℚ)
    (hu : ∀ i, ∑ j, s i * C i j * s j * u j = lam * u i) (i : Fin m) :
    ∑ j, C i j * w j * (u j / s j) = lam * (u i / s i) := by
  have h := hu i
  have e : ∑ j, C i j * w j * (u j / s j) = (∑ j, s i * C i j * s j * u j) / s i := by
    rw [Finset.sum_div]
    apply Finset.sum_congr rfl
    intro j _
    rw [← hs j]
    field_simp [hpos j, hpos i]
  rw [e, h]; ring
#print axioms orthonormal_w
#print axioms eigen_equation
