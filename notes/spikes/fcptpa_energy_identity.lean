import Mathlib.Algebra.BigOperators.Ring.Finset
import Mathlib.Algebra.BigOperators.Fin
import Mathlib.Data.Fintype.BigOperators
import Mathlib.Tactic.Ring
import Mathlib.Tactic.Linarith
import Mathlib.Data.Rat.Defs
import Mathlib.Algebra.Order.Field.Basic
import Mathlib.Algebra.Order.BigOperators.Ring.Finset

open Finset

variable {ι : Type*} [Fintype ι]

def ip (a b : ι → ℚ) : ℚ := ∑ i, a i * b i

theorem ip_expand (R T : ι → ℚ) (c : ℚ) :
    ip (fun i => R i - c * T i) (fun i => R i - c * T i)
      = ip R R - 2 * c * ip R T + c ^ 2 * ip T T := by
  unfold ip
  have h : ∀ i, (R i - c * T i) * (R i - c * T i)
      = R i * R i - 2 * c * (R i * T i) + c ^ 2 * (T i * T i) := by intro i; ring
  simp_rw [h, Finset.sum_add_distrib, Finset.sum_sub_distrib, ← Finset.mul_sum]

/-- one deflation step: R' = R - <R,T> T with <T,T> = 1 loses exactly c² of energy -/
theorem deflation_energy (R T : ι → ℚ) (hT : ip T T = 1) :
    ip (fun i => R i - ip R T * T i) (fun i => R i - ip R T * T i) = ip R R - (ip R T) ^ 2 := by
  rw [ip_expand, hT]; ring

theorem deflation_monotone (R T : ι → ℚ) (hT : ip T T = 1) :
    ip (fun i => R i - ip R T * T i) (fun i => R i - ip R T * T i) ≤ ip R R := by
  rw [deflation_energy R T hT]; nlinarith [sq_nonneg (ip R T)]

/-- rank-one tensor norm factorises -/
theorem rank_one_norm {n m1 m2 : ℕ} (u : Fin n → ℚ) (v : Fin m1 → ℚ) (w : Fin m2 → ℚ) :
    ip (fun x : Fin n × Fin m1 × Fin m2 => u x.1 * v x.2.1 * w x.2.2)
       (fun x : Fin n × Fin m1 × Fin m2 => u x.1 * v x.2.1 * w x.2.2)
      = (∑ i, u i * u i) * (∑ j, v j * v j) * (∑ k, w k * w k) := by
  unfold ip
  simp_rw [Fintype.sum_prod_type]
  have h : ∀ i j k, u i * v j * w k * (u i * v j * w k) = (u i * u i) * ((v j * v j) * (w k * w k)) := by
    intro i j k; ring
  simp_rw [h, ← Finset.mul_sum, ← Finset.sum_mul]
  ring

/-- greedy deflation over a list of unit tensors: energy identity by induction -/
def deflate (R : ι → ℚ) : List (ι → ℚ) → (ι → ℚ) × List ℚ
  | [] => (R, [])
  | T :: Ts =>
    let c := ip R T
    let r := deflate (fun i => R i - c * T i) Ts
    (r.1, c :: r.2)

theorem energy_identity (Ts : List (ι → ℚ)) (hT : ∀ T ∈ Ts, ip T T = 1) (R : ι → ℚ) :
    ip (deflate R Ts).1 (deflate R Ts).1 = ip R R - ((deflate R Ts).2.map (· ^ 2)).sum := by
  induction Ts generalizing R with
  | nil => simp [deflate]
  | cons T Ts ih =>
    have hT1 : ip T T = 1 := hT T (List.mem_cons_self)
    have hTs : ∀ T' ∈ Ts, ip T' T' = 1 := fun T' h => hT T' (List.mem_cons_of_mem _ h)
    simp only [deflate, List.map_cons, List.sum_cons]
    rw [ih hTs, deflation_energy R T hT1]; ring
#print axioms energy_identity
#print axioms rank_one_norm
