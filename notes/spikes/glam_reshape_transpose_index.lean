import Mathlib.Tactic.Ring
import Mathlib.Tactic.Linarith
import Mathlib.Data.Rat.Defs
import Mathlib.Algebra.BigOperators.Group.Finset.Basic
import Mathlib.Algebra.BigOperators.Ring.Finset

open Finset

/-- row-major linearisation -/
def lin : List Nat → List Nat → Nat
  | [], _ => 0
  | _ :: _, [] => 0
  | _ :: ss, i :: is => i * ss.prod + lin ss is

def unlin : List Nat → Nat → List Nat
  | [], _ => []
  | _ :: ss, f => (f / ss.prod) :: unlin ss (f % ss.prod)

inductive InRange : List Nat → List Nat → Prop
  | nil : InRange [] []
  | cons {s i ss is} : i < s → InRange ss is → InRange (s :: ss) (i :: is)

theorem lin_lt : ∀ {shape idx}, InRange shape idx → lin shape idx < shape.prod := by
  intro shape idx h
  induction h with
  | nil => simp [lin]
  | @cons s i ss is hi _ ih =>
    simp only [lin, List.prod_cons]
    calc i * ss.prod + lin ss is < i * ss.prod + ss.prod := by omega
      _ = (i + 1) * ss.prod := by ring
      _ ≤ s * ss.prod := Nat.mul_le_mul_right _ hi

theorem unlin_lin : ∀ {shape idx}, InRange shape idx → unlin shape (lin shape idx) = idx := by
  intro shape idx h
  induction h with
  | nil => simp [lin, unlin]
  | @cons s i ss is hi hr ih =>
    have hlt := lin_lt hr
    have hpos : 0 < ss.prod := by omega
    simp only [lin, unlin]
    have h1 : (i * ss.prod + lin ss is) / ss.prod = i := by
      rw [Nat.add_comm, Nat.add_mul_div_right _ _ hpos, Nat.div_eq_of_lt hlt]; simp
    have h2 : (i * ss.prod + lin ss is) % ss.prod = lin ss is := by
      rw [Nat.add_comm, Nat.add_mul_mod_self_right, Nat.mod_eq_of_lt hlt]
    rw [h1, h2, ih]

/-- flat-data n-d array -/
structure Arr where
  shape : List Nat
  data : Nat → ℚ

def Arr.get (a : Arr) (idx : List Nat) : ℚ := a.data (lin a.shape idx)
def Arr.reshape (a : Arr) (s : List Nat) : Arr := ⟨s, a.data⟩
/-- transpose of a 4-axis array with the permutation (0,2,1,3) -/
def Arr.transpose0213 (a : Arr) : Arr :=
  match a.shape with
  | [s0, s1, s2, s3] =>
      ⟨[s0, s2, s1, s3], fun f =>
        match unlin [s0, s2, s1, s3] f with
        | [i, j, k, l] => a.data (lin [s0, s1, s2, s3] [i, k, j, l])
        | _ => 0⟩
  | _ => a

/-- the reshape/transpose/reshape sandwich of `_fit_n_dimensional` for `bwb_mat` (2-D):
    an (m1*m1) x (m2*m2) matrix indexed [(i,k),(j,l)] becomes an (m1*m2) x (m1*m2) matrix
    indexed [(i,j),(k,l)]. -/
def sandwich (m1 m2 : Nat) (a : Arr) : Arr :=
  ((a.reshape [m1, m1, m2, m2]).transpose0213).reshape [m1 * m2, m1 * m2]

theorem sandwich_get (m1 m2 : Nat) (a : Arr) (i j k l : Nat)
    (hi : i < m1) (hj : j < m2) (hk : k < m1) (hl : l < m2) :
    (sandwich m1 m2 a).get [i * m2 + j, k * m2 + l]
      = a.data (lin [m1 * m1, m2 * m2] [i * m1 + k, j * m2 + l]) := by
  have hr : InRange [m1, m2, m1, m2] [i, j, k, l] :=
    .cons hi (.cons hj (.cons hk (.cons hl .nil)))
  have e : lin [m1 * m2, m1 * m2] [i * m2 + j, k * m2 + l] = lin [m1, m2, m1, m2] [i, j, k, l] := by
    simp [lin]; ring
  unfold sandwich Arr.get Arr.reshape Arr.transpose0213
  simp only []
  rw [e, unlin_lin hr]
  simp [lin]
  congr 1
  ring
#print axioms sandwich_get
