import Mathlib.Tactic.Linarith
import Mathlib.Data.Rat.Defs

/-- controller of `FCPTPA.fit`'s while loop; `conv n tol = true` means "not yet converged". -/
def loop (conv : Nat → Rat → Bool) (max : Nat) (adapt : Bool)
    (nIter : Nat) (tol : Rat) (forced : Bool) : Nat :=
  if forced then nIter
  else if !(conv nIter tol) then nIter
  else
    if nIter + 1 > max then
      if adapt && decide (nIter + 1 < 2 * max) then loop conv max adapt (nIter + 1) (10 * tol) false
      else loop conv max adapt (nIter + 1) tol true
    else loop conv max adapt (nIter + 1) tol false
termination_by (if forced then 0 else 1 + (2 * max + 2 - nIter))
decreasing_by
  all_goals simp_all
  all_goals omega

theorem loop_bound (conv : Nat → Rat → Bool) (max : Nat) (adapt : Bool)
    (nIter : Nat) (tol : Rat) (forced : Bool)
    (h1 : forced = true → nIter ≤ 2 * max + 1)
    (h2 : forced = false → (nIter ≤ max ∨ (adapt = true ∧ nIter < 2 * max))) :
    loop conv max adapt nIter tol forced ≤ 2 * max + 1 := by
  fun_induction loop conv max adapt nIter tol forced with
  | case1 n tol => exact h1 rfl
  | case2 n tol forced hf hc =>
      have := h2 (by simpa using hf); omega
  | case3 n tol forced hf hc hgt hadapt ih =>
      apply ih
      · intro h; cases h
      · intro _; right; simp at hadapt; exact ⟨hadapt.1, hadapt.2⟩
  | case4 n tol forced hf hc hgt hadapt ih =>
      apply ih
      · intro _
        have := h2 (by simpa using hf)
        simp at hadapt
        rcases this with h | ⟨ha, hlt⟩
        · omega
        · omega
      · intro h; cases h
  | case5 n tol forced hf hc hle ih =>
      apply ih
      · intro h; cases h
      · intro _; left; omega

theorem fit_iterations_bound (conv : Nat → Rat → Bool) (max : Nat) (adapt : Bool) (tol : Rat) :
    loop conv max adapt 0 tol false ≤ 2 * max + 1 :=
  loop_bound conv max adapt 0 tol false (by intro h; cases h) (by intro _; left; omega)
#print axioms fit_iterations_bound

#eval loop (fun _ _ => true) 5 true 0 (1/10000) false   -- expect 10
#eval loop (fun _ _ => true) 5 false 0 (1/10000) false  -- expect 6
#eval loop (fun _ _ => true) 0 true 0 (1/10000) false   -- expect 1
#eval loop (fun _ _ => true) 1 true 0 (1/10000) false   -- expect 2
