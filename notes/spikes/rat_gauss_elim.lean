-- exact rational Gaussian elimination, import-free
namespace Spike

abbrev Mat := Array (Array Rat)

def solve (a : Mat) (b : Array Rat) : Option (Array Rat) := Id.run do
  let n := a.size
  let mut m : Array (Array Rat) := Array.ofFn (n := n) fun i => (a[i]!).push (b[i]!)
  for c in [0:n] do
    -- find pivot
    let mut p := c
    for r in [c:n] do
      if m[p]![c]! == 0 && m[r]![c]! != 0 then p := r
    if m[p]![c]! == 0 then return none
    let tmp := m[c]!
    m := m.set! c m[p]!
    m := m.set! p tmp
    let piv := m[c]![c]!
    let rowc := m[c]!.map (· / piv)
    m := m.set! c rowc
    for r in [0:n] do
      if r != c then
        let f := m[r]![c]!
        if f != 0 then
          let rr := m[r]!
          m := m.set! r (Array.ofFn (n := n+1) fun j => rr[j]! - f * rowc[j]!)
  return some (m.map fun row => row[n]!)

end Spike
