import Mathlib.Tactic.Ring
import Mathlib.Tactic.Linarith
import Mathlib.Data.List.Sort
import Mathlib.Data.Rat.Defs
import Mathlib.Algebra.Order.Field.Basic

-- C01 core: clip keeps descending order; prefix = take
def clip (l : List ℚ) : List ℚ := l.map (max 0)

theorem clip_sorted (l : List ℚ) (h : l.Pairwise (· ≥ ·)) : (clip l).Pairwise (· ≥ ·) := by
  unfold clip
  rw [List.pairwise_map]
  exact h.imp (fun {a b} hab => max_le_max (le_refl 0) hab)

theorem clip_nonneg (l : List ℚ) : ∀ x ∈ clip l, 0 ≤ x := by
  intro x hx; unfold clip at hx
  obtain ⟨y, _, rfl⟩ := List.mem_map.1 hx
  exact le_max_left _ _

-- sorting by merge sort gives descending order whatever the solver returned
theorem sortDesc_sorted (l : List ℚ) : (l.mergeSort (fun a b => decide (a ≥ b))).Pairwise (· ≥ ·) := by
  have := List.pairwise_mergeSort (le := fun a b => decide (a ≥ b))
    (by intro a b c; simp; intro h1 h2; exact le_trans h2 h1)
    (by intro a b; simp; exact le_total b a) l
  simpa using this

-- Multivariate container: invariant all components share n_obs
structure Comp where nobs : Nat deriving DecidableEq
inductive Op | append (c : Comp) | extend (cs : List Comp) | insert (i : Nat) (c : Comp) | pop | clear | reverse
inductive Out | ok | valueError deriving DecidableEq
def allSame (l : List Comp) : Bool := match l with | [] => true | c :: cs => cs.all (·.nobs == c.nobs)
def step (s : List Comp) : Op → List Comp × Out
  | .append c => if allSame (s ++ [c]) then (s ++ [c], .ok) else (s, .valueError)
  | .extend cs => if allSame (s ++ cs) then (s ++ cs, .ok) else (s, .valueError)
  | .insert i c => if allSame (c :: s) then (s.insertIdx i c, .ok) else (s, .valueError)
  | .pop => (s.dropLast, .ok)
  | .clear => ([], .ok)
  | .reverse => (s.reverse, .ok)
def CInv (s : List Comp) : Prop := ∀ a ∈ s, ∀ b ∈ s, a.nobs = b.nobs
theorem allSame_iff (l : List Comp) : allSame l = true ↔ CInv l := by
  cases l with
  | nil => simp [allSame, CInv]
  | cons c cs =>
    simp only [allSame, List.all_eq_true, beq_iff_eq, CInv, List.mem_cons]
    constructor
    · intro h a ha b hb
      rcases ha with rfl | ha <;> rcases hb with rfl | hb
      · rfl
      · exact (h b hb).symm
      · exact h a ha
      · rw [h a ha, h b hb]
    · intro h x hx; exact h x (Or.inr hx) c (Or.inl rfl)
theorem step_inv (s : List Comp) (op : Op) (h : CInv s) : CInv (step s op).1 := by
  cases op with
  | append c => simp only [step]; split
                · rename_i hh; exact (allSame_iff _).1 hh
                · exact h
  | extend cs => simp only [step]; split
                 · rename_i hh; exact (allSame_iff _).1 hh
                 · exact h
  | insert i c =>
      simp only [step]; split
      · rename_i hh
        have hc := (allSame_iff _).1 hh
        intro a ha b hb
        have ha' : a ∈ c :: s := by
          by_cases hi : i ≤ s.length
          · exact (List.mem_insertIdx hi).1 ha |>.elim (fun e => e ▸ List.mem_cons_self) (fun m => List.mem_cons_of_mem _ m)
          · rw [List.insertIdx_of_length_lt (by omega)] at ha; exact List.mem_cons_of_mem _ ha
        have hb' : b ∈ c :: s := by
          by_cases hi : i ≤ s.length
          · exact (List.mem_insertIdx hi).1 hb |>.elim (fun e => e ▸ List.mem_cons_self) (fun m => List.mem_cons_of_mem _ m)
          · rw [List.insertIdx_of_length_lt (by omega)] at hb; exact List.mem_cons_of_mem _ hb
        exact hc a ha' b hb'
      · exact h
  | pop => intro a ha b hb; exact h a (List.dropLast_subset _ ha) b (List.dropLast_subset _ hb)
  | clear => intro a ha; simp [step] at ha
  | reverse => intro a ha b hb; simp [step] at ha hb; exact h a ha b hb
theorem reachable_inv (ops : List Op) (s : List Comp) (h : CInv s) : CInv (ops.foldl (fun s o => (step s o).1) s) := by
  induction ops generalizing s with
  | nil => simpa
  | cons o os ih => exact ih _ (step_inv s o h)
#print axioms reachable_inv
