import Mathlib.Algebra.Group.ForwardDiff
import Mathlib.Algebra.BigOperators.Field
import Mathlib.Tactic.Ring
import Mathlib.Tactic.Linarith
import Mathlib.Tactic.FieldSimp
import Mathlib.Data.Rat.Defs
import Mathlib.Algebra.Order.Field.Basic

open Finset Nat
open scoped fwdDiff

/-- truncated power in knot-index coordinates: `f u p i = (u - i)_+ ^ p` -/
def tp (u : ℚ) (p : ℕ) (i : ℕ) : ℚ := (max (u - (i : ℚ)) 0) ^ p

/-- cardinal B-spline number `j` in index coordinates, as coded (difference matrix times
truncated powers, divided by p!) -/
def bspl (u : ℚ) (p : ℕ) (j : ℕ) : ℚ :=
  (-1 : ℚ) ^ (p + 1) * (Δ_[1]^[p + 1] (tp u p)) j / (p ! : ℚ)

theorem telescoping (g : ℕ → ℚ) (n : ℕ) :
    ∑ j ∈ range n, (Δ_[1] g) j = g n - g 0 := by
  simp only [fwdDiff]
  exact Finset.sum_range_sub g n

theorem iter_at_top (u : ℚ) (p n : ℕ) (hp : 1 ≤ p) (hu : u ≤ n) :
    (Δ_[1]^[p] (tp u p)) n = 0 := by
  rw [fwdDiff_iter_eq_sum_shift]
  apply Finset.sum_eq_zero
  intro k _
  have : tp u p (n + k • 1) = 0 := by
    unfold tp
    have h : u - ((n + k • 1 : ℕ) : ℚ) ≤ 0 := by
      push_cast
      have : (0:ℚ) ≤ k := Nat.cast_nonneg k
      simp; linarith
    rw [max_eq_right h]
    exact zero_pow (by omega)
  rw [this]; simp


open Polynomial in
theorem poly_facts (u : ℚ) (p : ℕ) :
    ((C u - X : ℚ[X]) ^ p).natDegree = p ∧ ((C u - X : ℚ[X]) ^ p).leadingCoeff = (-1) ^ p := by
  have h1 : (C u - X : ℚ[X]) = -(X - C u) := by ring
  have hd : (C u - X : ℚ[X]).natDegree = 1 := by rw [h1, natDegree_neg, natDegree_X_sub_C]
  have hl : (C u - X : ℚ[X]).leadingCoeff = -1 := by
    rw [h1, leadingCoeff_neg, leadingCoeff_X_sub_C]
  constructor
  · rw [natDegree_pow, hd, mul_one]
  · rw [leadingCoeff_pow, hl]

open Polynomial in
theorem iter_at_bottom (u : ℚ) (p : ℕ) (hu : (p : ℚ) ≤ u) :
    (Δ_[1]^[p] (tp u p)) 0 = (-1) ^ p * (p ! : ℚ) := by
  obtain ⟨hd, hl⟩ := poly_facts u p
  have key := Polynomial.fwdDiff_iter_degree_eq_factorial ((C u - X : ℚ[X]) ^ p)
  rw [hd, hl] at key
  have key0 := congrFun key (0 : ℚ)
  rw [fwdDiff_iter_eq_sum_shift] at key0
  rw [fwdDiff_iter_eq_sum_shift]
  simp only [Pi.smul_apply, smul_eq_mul, Pi.natCast_apply] at key0
  have : ((-1 : ℚ) ^ p * (p ! : ℚ)) = ((-1 : ℚ) ^ p) * ((p ! : ℕ) : ℚ) := rfl
  rw [this]
  have key1 : ∑ k ∈ range (p + 1), ((-1 : ℤ) ^ (p - k) * (p.choose k : ℤ)) •
      eval ((0:ℚ) + k • (1:ℚ)) ((C u - X : ℚ[X]) ^ p) = (-1) ^ p * ((p ! : ℕ) : ℚ) := by
    convert key0 using 1
  rw [← key1]
  apply Finset.sum_congr rfl
  intro k hk
  have hk' : k ≤ p := by have := mem_range.1 hk; omega
  congr 1
  unfold tp
  have hku : (0:ℚ) ≤ u - ((0 + k • 1 : ℕ) : ℚ) := by
    push_cast
    have : (k : ℚ) ≤ p := by exact_mod_cast hk'
    simp; linarith
  rw [max_eq_left hku]
  simp

theorem partition_of_unity (u : ℚ) (p n : ℕ) (hp : 1 ≤ p) (hlo : (p : ℚ) ≤ u) (hhi : u ≤ n) :
    ∑ j ∈ range n, bspl u p j = 1 := by
  unfold bspl
  rw [← Finset.sum_div, ← Finset.mul_sum]
  have hsucc : ∀ j, (Δ_[1]^[p + 1] (tp u p)) j = (Δ_[1] (Δ_[1]^[p] (tp u p))) j := by
    intro j; rw [Function.iterate_succ_apply']
  simp_rw [hsucc]
  rw [telescoping, iter_at_top u p n hp hhi, iter_at_bottom u p hlo]
  have hf : (p ! : ℚ) ≠ 0 := by exact_mod_cast (Nat.factorial_ne_zero p)
  field_simp
  ring_nf
  rw [mul_comm p 2, pow_mul]; simp
#print axioms partition_of_unity
