import Mathlib.Data.Matrix.Mul
import Mathlib.Data.Matrix.Basic
import Mathlib.LinearAlgebra.Matrix.Symmetric
import Mathlib.Tactic.Ring
import Mathlib.Tactic.Linarith
import Mathlib.Tactic.FieldSimp
import Mathlib.Data.Rat.Defs
import Mathlib.Algebra.Order.Field.Basic

open Matrix

variable {M : ℕ}

/-- Two eigenvectors of `B*Q` (B, Q symmetric) for distinct eigenvalues are Q-orthogonal. -/
theorem q_orthogonal (B Q : Matrix (Fin M) (Fin M) ℚ) (hB : Bᵀ = B) (hQ : Qᵀ = Q)
    (c d : Fin M → ℚ) (ν μ : ℚ) (hc : (B * Q).mulVec c = ν • c) (hd : (B * Q).mulVec d = μ • d)
    (hne : ν ≠ μ) : c ⬝ᵥ Q.mulVec d = 0 := by
  -- s := cᵀ Q B Q d  computed two ways
  have h1 : (Q.mulVec c) ⬝ᵥ ((B * Q).mulVec d) = μ * (c ⬝ᵥ Q.mulVec d) := by
    rw [hd, dotProduct_smul, smul_eq_mul]
    congr 1
    rw [dotProduct_mulVec, ← hQ, vecMul_transpose, hQ, dotProduct_comm]
  have h2 : (Q.mulVec c) ⬝ᵥ ((B * Q).mulVec d) = ν * (c ⬝ᵥ Q.mulVec d) := by
    have : (Q.mulVec c) ⬝ᵥ ((B * Q).mulVec d) = ((B * Q).mulVec c) ⬝ᵥ (Q.mulVec d) := by
      rw [← mulVec_mulVec, ← mulVec_mulVec]
      rw [dotProduct_mulVec, ← hB, vecMul_transpose, hB, dotProduct_comm]
    rw [this, hc, smul_dotProduct, smul_eq_mul]
  have : (ν - μ) * (c ⬝ᵥ Q.mulVec d) = 0 := by linarith
  rcases mul_eq_zero.1 this with h | h
  · exact absurd (sub_eq_zero.1 h) hne
  · exact h
#print axioms q_orthogonal
