/-! C19 spike: non-interference of per-simulator generators.  Import-free.
    A generator is an abstract deterministic stream: state `G`, `next : G → D × G`. -/

variable {G D : Type} (next : G → D × G)

inductive Src | own | global deriving DecidableEq, Repr

/-- an operation of a simulator = a list of draw sources (its draw skeleton); the produced
    data is the list of drawn values (any pure function of them can be applied afterwards) -/
abbrev Op := List Src

structure World (G : Type) where
  glob : G
  own  : G

def drawList (next : G → D × G) : Op → World G → List D × World G
  | [], w => ([], w)
  | .own :: rest, w =>
      let (d, g') := next w.own
      let (ds, w') := drawList next rest { w with own := g' }
      (d :: ds, w')
  | .global :: rest, w =>
      let (d, g') := next w.glob
      let (ds, w') := drawList next rest { w with glob := g' }
      (d :: ds, w')

def allOwn (op : Op) : Bool := op.all (· == .own)

/-- If every draw of `op` comes from the simulator's own generator, the drawn values and the
    new own-state do not depend on the global generator, and the global generator is untouched. -/
theorem own_only (op : Op) (h : allOwn op = true) (w : World G) (g2 : G) :
    (drawList next op w).1 = (drawList next op { w with glob := g2 }).1 ∧
    (drawList next op w).2.own = (drawList next op { w with glob := g2 }).2.own ∧
    (drawList next op w).2.glob = w.glob := by
  induction op generalizing w with
  | nil => simp [drawList]
  | cons s rest ih =>
    cases s with
    | global => simp [allOwn] at h
    | own =>
      have hr : allOwn rest = true := by simp [allOwn] at h ⊢; exact h
      simp only [drawList]
      have := ih hr { w with own := (next w.own).2 }
      refine ⟨?_, ?_, ?_⟩
      · simpa using this.1
      · simpa using this.2.1
      · simpa using this.2.2

/-- running a whole call sequence -/
def runOps (next : G → D × G) : List Op → World G → List (List D) × World G
  | [], w => ([], w)
  | op :: ops, w =>
      let (ds, w1) := drawList next op w
      let (dss, w2) := runOps next ops w1
      (ds :: dss, w2)

/-- C19.noninterference: two simulators with the same own-seed, driven by the same calls,
    produce identical draws whatever the state of the global generator. -/
theorem noninterference (ops : List Op) (h : ∀ op ∈ ops, allOwn op = true)
    (seed : G) (ga gb : G) :
    (runOps next ops ⟨ga, seed⟩).1 = (runOps next ops ⟨gb, seed⟩).1 := by
  suffices H : ∀ (w : World G) (g2 : G),
      (runOps next ops w).1 = (runOps next ops { w with glob := g2 }).1 from H ⟨ga, seed⟩ gb
  induction ops with
  | nil => intro w g2; simp [runOps]
  | cons op ops ih =>
    intro w g2
    have hop := h op (List.mem_cons_self)
    have hrest : ∀ o ∈ ops, allOwn o = true := fun o ho => h o (List.mem_cons_of_mem _ ho)
    obtain ⟨h1, h2, h3⟩ := own_only next op hop w g2
    obtain ⟨_, _, h3'⟩ := own_only next op hop { w with glob := g2 } g2
    simp only [runOps]
    -- the two intermediate worlds differ at most in `glob`
    have hw : (drawList next op { w with glob := g2 }).2
        = { (drawList next op w).2 with glob := g2 } := by
      cases hA : (drawList next op w).2 with
      | mk ga oa =>
        cases hB : (drawList next op { w with glob := g2 }).2 with
        | mk gb ob =>
          simp only [hA, hB] at h2 h3'
          simp [h2, h3']
    rw [h1, hw, ih hrest (drawList next op w).2 g2]

#print axioms noninterference
