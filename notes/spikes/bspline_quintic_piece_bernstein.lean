import Mathlib.Tactic.Ring
import Mathlib.Tactic.Linarith
import Mathlib.Tactic.Positivity
import Mathlib.Data.Rat.Defs
import Mathlib.Algebra.Order.Field.Basic

/-- quintic cardinal B-spline, piece 2, non-negative on [0,1] via its Bernstein form -/
example (u : ℚ) (h0 : 0 ≤ u) (h1 : u ≤ 1) :
    0 ≤ u^5/12 - u^4/6 - u^3/6 + u^2/6 + 5*u/12 + 13/60 := by
  have hv : 0 ≤ 1 - u := by linarith
  have e : u^5/12 - u^4/6 - u^3/6 + u^2/6 + 5*u/12 + 13/60 =
      13/60 * (1-u)^5 + 3/10 * 5 * u * (1-u)^4 + 2/5 * 10 * u^2 * (1-u)^3
      + 1/2 * 10 * u^3 * (1-u)^2 + 11/20 * 5 * u^4 * (1-u) + 11/20 * u^5 := by ring
  rw [e]
  positivity
