/-! C20 spike: the combined operation as a step list with a fault schedule.
    Import-free. `Data` is abstract; `noise`/`sparse` are arbitrary functions of (data, draws). -/

structure Sim (D : Type) where
  data   : Option D
  noisy  : Option D
  sparse : Option D
deriving Repr

inductive Err | noData | dim | injected deriving Repr, DecidableEq

/-- fault schedule: the `k`-th internal call (0-based, counted over the whole operation) raises -/
structure Sched where
  failAt : Option Nat
  tick   : Nat := 0

def Sched.step (s : Sched) : Except Err Sched :=
  if s.failAt = some s.tick then .error .injected else .ok { s with tick := s.tick + 1 }

variable {D : Type}

/-- `add_noise`: check data, draw, build noisy data -/
def addNoise (noise : D → D) (sim : Sim D) (sc : Sched) : Except Err (Sim D × Sched) := do
  let sc ← sc.step                       -- _check_data
  match sim.data with
  | none => .error .noData
  | some d =>
    let sc ← sc.step                     -- rnorm draw
    let sc ← sc.step                     -- _add_noise_univariate_data
    pure ({ sim with noisy := some (noise d) }, sc)

/-- `sparsify`: check data, check dimension, draw, build sparse data -/
def sparsify (ok1d : D → Bool) (sp : D → D) (sim : Sim D) (sc : Sched) : Except Err (Sim D × Sched) := do
  let sc ← sc.step                       -- _check_data
  match sim.data with
  | none => .error .noData
  | some d =>
    let sc ← sc.step                     -- _check_dimension
    if !ok1d d then .error .dim else
    let sc ← sc.step                     -- runif / rchoice
    let sc ← sc.step                     -- _sparsify_univariate_data
    pure ({ sim with sparse := some (sp d) }, sc)

/-- as coded today: swap without `finally` -/
def combinedImpl (noise sp : D → D) (ok1d : D → Bool) (sim : Sim D) (sc : Sched) :
    Sim D × Option Err :=
  match addNoise noise sim sc with
  | .error e => (sim, some e)
  | .ok (s1, sc1) =>
    let tmp := s1.data
    let s2 := { s1 with data := s1.noisy }
    match sparsify ok1d sp s2 sc1 with
    | .error e => (s2, some e)                       -- data NOT restored
    | .ok (s3, _) => ({ s3 with data := tmp }, none)

/-- with `try/finally` -/
def combinedSpec (noise sp : D → D) (ok1d : D → Bool) (sim : Sim D) (sc : Sched) :
    Sim D × Option Err :=
  match addNoise noise sim sc with
  | .error e => (sim, some e)
  | .ok (s1, sc1) =>
    let tmp := s1.data
    let s2 := { s1 with data := s1.noisy }
    match sparsify ok1d sp s2 sc1 with
    | .error e => ({ s2 with data := tmp }, some e)  -- restored
    | .ok (s3, _) => ({ s3 with data := tmp }, none)

theorem addNoise_data (noise : D → D) (sim s' : Sim D) (sc sc' : Sched)
    (h : addNoise noise sim sc = .ok (s', sc')) : s'.data = sim.data := by
  unfold addNoise at h
  cases h1 : sc.step with
  | error e => simp [h1, bind, Except.bind] at h
  | ok sc1 =>
    simp only [h1, bind, Except.bind] at h
    cases hd : sim.data with
    | none => simp [hd] at h
    | some d =>
      simp only [hd] at h
      cases h2 : sc1.step with
      | error e => simp [h2] at h
      | ok sc2 =>
        simp only [h2] at h
        cases h3 : sc2.step with
        | error e => simp [h3] at h
        | ok sc3 =>
          simp only [h3, pure, Except.pure, Except.ok.injEq, Prod.mk.injEq] at h
          rw [← h.1]

theorem sparsify_data (ok1d : D → Bool) (sp : D → D) (sim s' : Sim D) (sc sc' : Sched)
    (h : sparsify ok1d sp sim sc = .ok (s', sc')) : s'.data = sim.data := by
  unfold sparsify at h
  cases h1 : sc.step with
  | error e => simp [h1, bind, Except.bind] at h
  | ok sc1 =>
    simp only [h1, bind, Except.bind] at h
    cases hd : sim.data with
    | none => simp [hd] at h
    | some d =>
      simp only [hd] at h
      cases h2 : sc1.step with
      | error e => simp [h2] at h
      | ok sc2 =>
        simp only [h2] at h
        by_cases hk : ok1d d
        · simp only [hk, Bool.not_true, Bool.false_eq_true, ↓reduceIte] at h
          cases h3 : sc2.step with
          | error e => simp [h3] at h
          | ok sc3 =>
            simp only [h3] at h
            cases h4 : sc3.step with
            | error e => simp [h4] at h
            | ok sc4 =>
              simp only [h4, pure, Except.pure, Except.ok.injEq, Prod.mk.injEq] at h
              rw [← h.1]
        · simp [hk] at h

/-- C20.data_restored: every fault point, every data, natural failures included -/
theorem data_restored (noise sp : D → D) (ok1d : D → Bool) (sim : Sim D) (sc : Sched) :
    (combinedSpec noise sp ok1d sim sc).1.data = sim.data := by
  unfold combinedSpec
  cases h : addNoise noise sim sc with
  | error e => rfl
  | ok r =>
    obtain ⟨s1, sc1⟩ := r
    have hd := addNoise_data noise sim s1 sc sc1 h
    simp only
    cases h2 : sparsify ok1d sp { s1 with data := s1.noisy } sc1 with
    | error e => simpa using hd
    | ok r2 => obtain ⟨s3, sc3⟩ := r2; simpa using hd

/-- the coded version violates it: natural 2-D failure, no injected fault -/
theorem impl_counterexample :
    ∃ (sim : Sim Nat), (combinedImpl (· + 1) id (fun _ => false) sim ⟨none, 0⟩).1.data ≠ sim.data :=
  ⟨⟨some 5, none, none⟩, by decide⟩

#print axioms data_restored
#print axioms impl_counterexample
