import Mathlib.Data.Matrix.Mul
import Mathlib.Tactic.Ring
import Mathlib.Tactic.Linarith
import Mathlib.Tactic.Positivity
import Mathlib.Data.Rat.Defs
import Mathlib.Algebra.Order.Field.Basic

open Matrix

/-- leverage bound: if A z = b and A - w b bᵀ is PSD (as a quadratic form) then 0 ≤ w bᵀz ≤ 1 -/
theorem leverage_bound {m : ℕ} (A : Matrix (Fin m) (Fin m) ℚ) (b z : Fin m → ℚ) (w : ℚ)
    (hw : 0 ≤ w) (hz : A.mulVec z = b)
    (hpsd : ∀ v : Fin m → ℚ, w * (b ⬝ᵥ v)^2 ≤ v ⬝ᵥ A.mulVec v) :
    0 ≤ w * (b ⬝ᵥ z) ∧ w * (b ⬝ᵥ z) ≤ 1 := by
  have h := hpsd z
  rw [hz] at h
  have hc : z ⬝ᵥ b = b ⬝ᵥ z := dotProduct_comm _ _
  rw [hc] at h
  set t := b ⬝ᵥ z with ht
  have ht0 : 0 ≤ t := le_trans (mul_nonneg hw (sq_nonneg t)) h
  refine ⟨mul_nonneg hw ht0, ?_⟩
  by_cases h0 : t = 0
  · rw [h0]; simp
  · have tpos : 0 < t := lt_of_le_of_ne ht0 (Ne.symm h0)
    have : w * t * t ≤ 1 * t := by nlinarith
    exact le_of_mul_le_mul_right this tpos
#print axioms leverage_bound
