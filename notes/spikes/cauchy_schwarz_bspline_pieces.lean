import Mathlib.Algebra.Order.BigOperators.Ring.Finset
import Mathlib.Algebra.BigOperators.Fin
import Mathlib.Tactic.Ring
import Mathlib.Tactic.Linarith
import Mathlib.Tactic.Positivity
import Mathlib.Tactic.FieldSimp
import Mathlib.Tactic.NormNum
import Mathlib.Data.Rat.Defs

open Finset

theorem wcs (n : ℕ) (w x y : Fin n → ℚ) (hw : ∀ i, 0 ≤ w i) :
    (∑ i, w i * x i * y i)^2 ≤ (∑ i, w i * x i ^ 2) * (∑ i, w i * y i ^ 2) := by
  apply Finset.sum_sq_le_sum_mul_sum_of_sq_le_mul
  · intro i _; exact mul_nonneg (hw i) (sq_nonneg _)
  · intro i _; exact mul_nonneg (hw i) (sq_nonneg _)
  · intro i _; apply le_of_eq; ring

-- cubic cardinal B-spline pieces on u in [0,1): nonneg
-- N3 pieces: u^3/6, (-3u^3+3u^2+3u+1)/6, (3u^3-6u^2+4)/6, (1-u)^3/6
example (u : ℚ) (h0 : 0 ≤ u) (h1 : u < 1) : 0 ≤ (-3*u^3+3*u^2+3*u+1)/6 := by
  have : 0 ≤ 1 - u := by linarith
  nlinarith [mul_nonneg h0 this, mul_nonneg (mul_nonneg h0 h0) this, pow_nonneg h0 3]
example (u : ℚ) (h0 : 0 ≤ u) (h1 : u < 1) : 0 ≤ (3*u^3-6*u^2+4)/6 := by
  have : 0 ≤ 1 - u := by linarith
  nlinarith [mul_nonneg h0 this, mul_nonneg (mul_nonneg h0 h0) this, pow_nonneg h0 3, mul_nonneg this this]

-- partition of unity cubic
example (u : ℚ) : u^3/6 + (-3*u^3+3*u^2+3*u+1)/6 + (3*u^3-6*u^2+4)/6 + (1-u)^3/6 = 1 := by ring
#print axioms wcs
