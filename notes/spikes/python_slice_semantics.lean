/-! C13 spike: Python `slice(start, stop, step).indices(n)` + `range` semantics.  Import-free. -/

/-- CPython's PySlice_Unpack + PySlice_AdjustIndices; `none` result = ValueError (step 0) -/
def sliceIndices (n : Nat) (start stop step : Option Int) : Option (Int × Int × Int) :=
  let st : Int := step.getD 1
  if st == 0 then none else
  let len : Int := n
  let adj (v : Int) : Int :=
    if v < 0 then
      let v' := v + len
      if v' < 0 then (if st < 0 then -1 else 0) else v'
    else if v >= len then (if st < 0 then len - 1 else len) else v
  let s : Int := match start with
    | none => if st < 0 then len - 1 else 0
    | some v => adj v
  let e : Int := match stop with
    | none => if st < 0 then -1 else len
    | some v => adj v
  some (s, e, st)

/-- the positions selected: `range(s, e, st)` -/
def rangeList (s e st : Int) (fuel : Nat) : List Int :=
  match fuel with
  | 0 => []
  | fuel + 1 =>
    if (st > 0 && s < e) || (st < 0 && s > e) then s :: rangeList (s + st) e st fuel else []

def select (n : Nat) (start stop step : Option Int) : Option (List Int) :=
  (sliceIndices n start stop step).map fun (s, e, st) => rangeList s e st (n + 1)

def optStr : Option Int → String
  | none => "None"
  | some v => toString v

def main : IO Unit := do
  let vals : List (Option Int) := none :: (List.range 11).map (fun (k : Nat) => some ((k : Int) - 5))
  for n in [0, 1, 2, 3, 4, 5, 6] do
    for a in vals do
      for b in vals do
        for c in vals do
          let r := select n a b c
          let rs := match r with
            | none => "ValueError"
            | some l => toString l
          IO.println s!"{n} {optStr a} {optStr b} {optStr c} {rs}"
