#!/bin/bash
# usage: run_trial.sh name
n=$1
d=/root/scratch/trial/copy_$n
rm -rf $d && rsync -a --exclude .git /repo/ $d/ && /venv/bin/python /verif/notes/candidate_repairs.py $n $d || { echo "$n PATCH-FAILED"; exit 1; }
cd $d && OMP_NUM_THREADS=2 OPENBLAS_NUM_THREADS=2 PYTHONPATH=$d /venv/bin/python -m pytest -q -p no:cacheprovider --timeout=900 -q 2>&1 | grep -E "^FAILED|passed|failed" > /root/scratch/trial/result_$n.txt
echo "$n done: $(tail -1 /root/scratch/trial/result_$n.txt)"
