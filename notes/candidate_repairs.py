"""Candidate repairs, applied to scratch copies only (never /repo in this phase)."""
import sys, os, re

def sub(path, old, new, count=1):
    s = open(path).read()
    assert s.count(old) >= 1, (path, old[:60])
    if count == 0:
        s = s.replace(old, new)
    else:
        assert s.count(old) == count, (path, old[:60], s.count(old))
        s = s.replace(old, new)
    open(path, 'w').write(s)

def c03(root):
    for f in ['ufpca.py', 'mfpca.py']:
        p = f'{root}/FDApy/preprocessing/dim_reduction/{f}'
        sub(p, "data_new, _ = data.rescale(weights=self.weights)", "data_new, _ = data_new.rescale(weights=self.weights)")
    p = f'{root}/FDApy/preprocessing/dim_reduction/ufpca.py'
    sub(p, "DenseValues(self.weights * values + self.mean.values)", "DenseValues(np.sqrt(self.weights) * values + self.mean.values)")
    p = f'{root}/FDApy/preprocessing/dim_reduction/mfpca.py'
    sub(p, "DenseValues(weight * values + mean.values)", "DenseValues(np.sqrt(weight) * values + mean.values)")

def c05(root):
    p = f'{root}/FDApy/preprocessing/smoothing/psplines.py'
    sub(p, """        rot_hat_mat.reshape(np.repeat(n_basis, 2))
        .transpose(_create_permutation(2, len(n_basis)))""",
           """        rot_hat_mat.reshape(np.tile(n_basis, 2))
        .transpose(_create_permutation(len(n_basis), 2))""")

def c07(root):
    p = f'{root}/FDApy/preprocessing/smoothing/psplines.py'
    sub(p, """        # Export results
        self.basis = basis_list""", """        # Keep the domain of the basis for the prediction
        self._domain_min = [
            np.min(argvals) if do_min is None else do_min
            for argvals, do_min in zip(x, domain_min)
        ]
        self._domain_max = [
            np.max(argvals) if do_max is None else do_max
            for argvals, do_max in zip(x, domain_max)
        ]

        # Export results
        self.basis = basis_list""")
    sub(p, """                domain_min=kwargs.get("domain_min", np.min(argvals)),
                domain_max=kwargs.get("domain_max", np.max(argvals)),
            )
            for argvals, n_segments, degree in zip(x, self.n_segments, self.degree)
        ]""", """                domain_min=do_min,
                domain_max=do_max,
            )
            for argvals, n_segments, degree, do_min, do_max in zip(
                x,
                self.n_segments,
                self.degree,
                kwargs.get("domain_min", self._domain_min),
                kwargs.get("domain_max", self._domain_max),
            )
        ]""")
    p = f'{root}/FDApy/representation/functional_data.py'
    sub(p, """        if points is None:
            points = self.argvals.to_dense()
        domain_min = tuple(val[0] for val in points.min_max.values())
        domain_max = tuple(val[1] for val in points.min_max.values())

        if method == "LP":""", """        if points is None:
            points = self.argvals.to_dense()
        domain_min = tuple(val[0] for val in self.argvals.min_max.values())
        domain_max = tuple(val[1] for val in self.argvals.min_max.values())

        if method == "LP":""")

def c10(root):
    p = f'{root}/FDApy/representation/functional_data.py'
    sub(p, "new_values = np.divide(fdata.values, std, where=(std != 0))",
           "new_values = np.divide(\n            fdata.values, std, out=np.zeros_like(fdata.values, dtype=float), where=(std != 0)\n        )")
    sub(p, """            obs_standardized[idx] = np.divide(
                obs.values[idx], std_obs, where=(std_obs > 1e-12)
            )""", """            obs_standardized[idx] = np.divide(
                obs.values[idx],
                std_obs,
                out=np.zeros_like(obs.values[idx], dtype=float),
                where=(std_obs > 1e-12),
            )""")

def c11(root):
    p = f'{root}/FDApy/representation/functional_data.py'
    sub(p, """        \"\"\"Extend the list of FunctionalData by appending from iterable.\"\"\"
        super().extend(other)""", """        \"\"\"Extend the list of FunctionalData by appending from iterable.\"\"\"
        other = list(other)
        FunctionalData._check_same_nobs(*self.data, *other)
        super().extend(other)""")
    sub(p, """        \"\"\"Insert an item `item` at a given position `i`.\"\"\"
        super().insert(i, item)""", """        \"\"\"Insert an item `item` at a given position `i`.\"\"\"
        FunctionalData._check_same_nobs(*self.data, item)
        super().insert(i, item)""")

def c12(root):
    p = f'{root}/FDApy/representation/functional_data.py'
    sub(p, "        return (self.argvals == obj.argvals) & np.allclose(self.values, obj.values)",
"""        if type(self) is not type(obj) or not (self.argvals == obj.argvals):
            return False
        if isinstance(self.values, dict):
            return all(
                key in obj.values
                and np.shape(value) == np.shape(obj.values[key])
                and np.allclose(value, obj.values[key], equal_nan=True)
                for key, value in self.values.items()
            )
        if self.values.shape != obj.values.shape:
            return False
        return bool(np.allclose(self.values, obj.values, equal_nan=True))""")

def c15(root):
    p = f'{root}/FDApy/representation/functional_data.py'
    sub(p, """                argvals_mat = _cartesian_product(*obs.argvals[idx].values())
                smooth[idx, :] = lp.predict(
                    y=obs.values[idx].flatten(), x=argvals_mat, x_new=points_mat
                ).reshape(smooth.shape[1:])""", """                argvals_mat = _cartesian_product(*obs.argvals[idx].values())
                y = obs.values[idx].flatten()
                mask = ~np.isnan(y)
                smooth[idx, :] = lp.predict(
                    y=y[mask], x=argvals_mat[mask], x_new=points_mat
                ).reshape(smooth.shape[1:])""")

def c16(root):
    p = f'{root}/FDApy/representation/functional_data.py'
    sub(p, """        basis_values = np.divide(fdata.basis.values, std, where=(std != 0))
        fdata.basis.values = basis_values
        return BasisFunctionalData(fdata.basis, fdata.coefficients)""",
"""        basis_values = np.divide(
            fdata.basis.values,
            std,
            out=np.zeros_like(fdata.basis.values, dtype=float),
            where=(std != 0),
        )
        new_basis = DenseFunctionalData(
            DenseArgvals(fdata.basis.argvals), DenseValues(basis_values)
        )
        return BasisFunctionalData(new_basis, fdata.coefficients)""")
    p = f'{root}/FDApy/preprocessing/dim_reduction/mfpca.py'
    sub(p, """        method = univariate_expansion.pop("method", "PSplines")""", """        univariate_expansion = dict(univariate_expansion)
        method = univariate_expansion.pop("method", "PSplines")""")

def c19(root):
    p = f'{root}/FDApy/simulation/datasets.py'
    sub(p, """        if self.basis_name == "zhang_chen":""", """        if self.random_state is None:
            rnorm = np.random.normal
        else:
            rnorm = self.random_state.normal

        if self.basis_name == "zhang_chen":""")
    sub(p, "values=DenseValues(_zhang_chen(n_obs=n_obs, argvals=argvals)),", "values=DenseValues(\n                    _zhang_chen(n_obs=n_obs, argvals=argvals, rnorm=rnorm)\n                ),")

def c20(root):
    p = f'{root}/FDApy/simulation/simulation.py'
    sub(p, """        tmp = self.data
        self.data = self.noisy_data
        self.sparsify(percentage=percentage, epsilon=epsilon)
        self.data = tmp""", """        tmp = self.data
        self.data = self.noisy_data
        try:
            self.sparsify(percentage=percentage, epsilon=epsilon)
        finally:
            self.data = tmp""")
    sub(p, "mask[rchoice(np.arange(n_points), size=2)] = True", "mask[rchoice(np.arange(n_points), size=2, replace=False)] = True")

def c06(root):
    p = f'{root}/FDApy/preprocessing/smoothing/local_polynomial.py'
    sub(p, """        dmat_sampling = self.poly_features.fit_transform(x)
        dmat_query = self.poly_features.fit_transform(x_new)

        y_pred = np.zeros(x_new.shape[0])
        for idx, (pts, dmat) in enumerate(zip(x_new, dmat_query)):
            y_pred[idx] = _local_regression(
                y, x, pts, dmat_sampling, dmat, self.bandwidth, self.kernel
            )
        return y_pred""", """        # The local problem is solved in centred and bandwidth-scaled coordinates
        dmat_query = self.poly_features.fit_transform(np.zeros((1, x.shape[1])))[0]

        y_pred = np.zeros(x_new.shape[0])
        for idx, pts in enumerate(x_new):
            dmat_sampling = self.poly_features.fit_transform(
                (x - pts) / self.bandwidth
            )
            y_pred[idx] = _local_regression(
                y, x, pts, dmat_sampling, dmat_query, self.bandwidth, self.kernel
            )
        return y_pred""")

ALL = dict(c03=c03, c05=c05, c06=c06, c07=c07, c10=c10, c11=c11, c12=c12, c15=c15, c16=c16, c19=c19, c20=c20)

def c03a(root):
    for f in ['ufpca.py', 'mfpca.py']:
        p = f'{root}/FDApy/preprocessing/dim_reduction/{f}'
        sub(p, "data_new, _ = data.rescale(weights=self.weights)", "data_new, _ = data_new.rescale(weights=self.weights)")
def c03b(root):
    p = f'{root}/FDApy/preprocessing/dim_reduction/ufpca.py'
    sub(p, "DenseValues(self.weights * values + self.mean.values)", "DenseValues(np.sqrt(self.weights) * values + self.mean.values)")
    p = f'{root}/FDApy/preprocessing/dim_reduction/mfpca.py'
    sub(p, "DenseValues(weight * values + mean.values)", "DenseValues(np.sqrt(weight) * values + mean.values)")
ALL.update(c03a=c03a, c03b=c03b)



def c13(root):
    """Label-agnostic irregular data: positions for iteration/indexing, labels kept."""
    p = f'{root}/FDApy/representation/argvals.py'
    sub(p, """        new_argvals = {}
        for el in argvals:
            temp = len(new_argvals)
            for key, values in el.items():
                new_argvals[temp + key] = values
        return IrregularArgvals(new_argvals)""", """        new_argvals = {}
        for el in argvals:
            for values in el.values():
                new_argvals[len(new_argvals)] = values
        return IrregularArgvals(new_argvals)""")
    p = f'{root}/FDApy/representation/values.py'
    sub(p, """        new_values = {}
        for el in values:
            temp = len(new_values)
            for key, values in el.items():
                new_values[temp + key] = values
        return IrregularValues(new_values)""", """        new_values = {}
        for el in values:
            for value in el.values():
                new_values[len(new_values)] = value
        return IrregularValues(new_values)""")
    p = f'{root}/FDApy/representation/functional_data.py'
    # iterator yields observations keyed by their position
    sub(p, """        if len(self._index) > 0:
            idx = self._index.pop(0)
            item = self._fdata[idx]
            return item
        else:
            raise StopIteration""", """        if len(self._index) > 0:
            label = self._index.pop(0)
            position = self._position
            self._position += 1
            return IrregularFunctionalData(
                IrregularArgvals({position: self._fdata.argvals[label]}),
                IrregularValues({position: self._fdata.values[label]}),
            )
        else:
            raise StopIteration""")
    sub(p, """        self._fdata = fdata
        self._index = list(fdata.argvals)

    def __next__(self):""", """        self._fdata = fdata
        self._index = list(fdata.argvals)
        self._position = 0

    def __next__(self):""")
    # position-based selection, labels retained
    sub(p, """        if isinstance(index, slice):
            indices = index.indices(self.n_obs)
            argvals = {obs: self.argvals.get(obs) for obs in range(*indices)}
            values = {obs: self.values.get(obs) for obs in range(*indices)}
        elif isinstance(index, np.ndarray):
            argvals = {int(obs): self.argvals.get(obs) for obs in index}
            values = {int(obs): self.values.get(obs) for obs in index}
        else:
            argvals = {index: self.argvals[index]}
            values = {index: self.values[index]}""", """        labels = list(self.argvals.keys())
        if isinstance(index, slice):
            selected = labels[index]
        elif isinstance(index, np.ndarray):
            selected = [labels[int(obs)] for obs in index]
        else:
            selected = [labels[index]]
        argvals = {label: self.argvals[label] for label in selected}
        values = {label: self.values[label] for label in selected}""")
    # results keyed by the labels of self
    sub(p, """        obs_centered = {}
        for idx, obs in enumerate(self):
            obs_points = np.isin(
                new_argvals["input_dim_0"], obs.argvals[idx]["input_dim_0"]
            )
            mean_obs = data_mean.values[0][obs_points]
            obs_centered[idx] = obs.values[idx] - mean_obs""", """        obs_centered = {}
        for idx, (label, obs) in enumerate(zip(self.argvals.keys(), self)):
            obs_points = np.isin(
                new_argvals["input_dim_0"], obs.argvals[idx]["input_dim_0"]
            )
            mean_obs = data_mean.values[0][obs_points]
            obs_centered[label] = obs.values[idx] - mean_obs""")
    sub(p, """        for idx, (obs, norm) in enumerate(zip(self, norm_val)):
            new_values[idx] = obs.values[idx] / norm""", """        for idx, (label, obs, norm) in enumerate(
            zip(self.argvals.keys(), self, norm_val)
        ):
            new_values[label] = obs.values[idx] / norm""")
    sub(p, """        for idx, obs in enumerate(fdata):
            obs_points = np.isin(
                covariance.argvals["input_dim_0"], obs.argvals[idx]["input_dim_0"]
            )
            std_obs = np.sqrt(variance[obs_points])
            obs_standardized[idx] = np.divide(""", """        for idx, (label, obs) in enumerate(zip(fdata.argvals.keys(), fdata)):
            obs_points = np.isin(
                covariance.argvals["input_dim_0"], obs.argvals[idx]["input_dim_0"]
            )
            std_obs = np.sqrt(variance[obs_points])
            obs_standardized[label] = np.divide(""")


def c14(root):
    p = f'{root}/FDApy/representation/functional_data.py'
    sub(p, "        new_dim = (self.basis.n_obs**2, *(2 * self.n_points))",
           "        new_dim = (self.basis.n_obs**2, *np.repeat(self.n_points, 2))")


ALL.update(c13=c13, c14=c14)



def c13b(root):
    """c13 without the consecutive relabelling in concatenate (a stable test pins labels 0,2)."""
    import shutil, tempfile
    for f in ['argvals.py', 'values.py']:
        shutil.copy(f'{root}/FDApy/representation/{f}', f'{root}/FDApy/representation/{f}.orig')
    c13(root)
    for f in ['argvals.py', 'values.py']:
        shutil.move(f'{root}/FDApy/representation/{f}.orig', f'{root}/FDApy/representation/{f}')


ALL.update(c13b=c13b)



def c04(root):
    """Use the centred scores consistently with np.cov in the multivariate eigen-analysis."""
    p = f'{root}/FDApy/preprocessing/dim_reduction/mfpca.py'
    sub(p, """    scores_normed = scores_univariate / np.sqrt(len(scores_univariate) - 1)""",
           """    scores_centered = scores_univariate - scores_univariate.mean(axis=0)
    scores_normed = scores_centered / np.sqrt(len(scores_univariate) - 1)""")


ALL.update(c04=c04)

if __name__ == '__main__':
    ALL[sys.argv[1]](sys.argv[2])
